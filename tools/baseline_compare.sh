#!/bin/bash
# Runs the repository's baseline suite with the verif guard OFF and compares the
# set of passing tests with /root/.vp/BASELINE.json (when that file is present).
export GOFLAGS=-mod=mod GOPROXY=off GOSUMDB=off GOTOOLCHAIN=local
out=$(mktemp)
(cd /repo && go test -mod=mod -json -vet=off -count=1 -timeout 25m ./...) > "$out"
python3 - "$out" <<'PY'
import json,sys,os
passed=set(); failed=set()
for l in open(sys.argv[1]):
    try: e=json.loads(l)
    except Exception: continue
    if 'Test' not in e: continue
    k=e['Package']+'::'+e['Test']
    if e.get('Action')=='pass': passed.add(k)
    if e.get('Action')=='fail': failed.add(k)
print('passed',len(passed),'failed',len(failed))
b='/root/.vp/BASELINE.json'
rc=0
if os.path.exists(b):
    sp=set(json.load(open(b))['stable_pass'])
    missing=sp-passed
    print('baseline stable_pass',len(sp),'missing',len(missing))
    for m in sorted(missing)[:20]: print('  MISSING',m)
    if missing: rc=1
if failed:
    for f in sorted(failed)[:20]: print('  FAILED',f)
    rc=1
sys.exit(rc)
PY
rc=$?
rm -f "$out"
exit $rc
