#!/usr/bin/env python3
"""Validate MANIFEST.json and evidence/*.json against the schemas in /root/.vp (if present)."""
import json,sys,os,glob
try:
    import jsonschema
except ImportError:
    sys.path.insert(0,'/opt/veriftools/pyvenv/lib/python3.11/site-packages')
    import jsonschema
root=os.path.dirname(os.path.dirname(os.path.abspath(__file__)))
rc=0
def val(path,schema):
    global rc
    try:
        jsonschema.validate(json.load(open(path)),json.load(open(schema)))
        print('ok  ',path)
    except Exception as e:
        rc=1
        print('FAIL',path,str(e)[:400])
val(root+'/MANIFEST.json','/root/.vp/MANIFEST.schema.json')
for f in sorted(glob.glob(root+'/evidence/*.json')):
    val(f,'/root/.vp/EVIDENCE.schema.json')
m=json.load(open(root+'/MANIFEST.json'))
props=[json.loads(l)['id'] for l in open(root+'/properties.jsonl')]
claimed=[c['property_id'] for c in m['checks']]
na=[n['property_id'] for n in m.get('not_applicable',[])]
for p in props:
    if p not in claimed and p not in na:
        rc=1; print('property',p,'neither claimed nor not_applicable')
    if p in claimed and p in na:
        rc=1; print('property',p,'both claimed and not_applicable')
sys.exit(rc)
