#!/usr/bin/env python3
"""Builds the harness author's own mutants (DESIGN round list) as patches in /verif/seeded_own/.
Each entry: (name, property, file, old, new). Run from anywhere; uses a scratch worktree."""
import subprocess,os,json
SW='/tmp/swo'
env=dict(os.environ,GOFLAGS='-mod=mod',GOPROXY='off',GOSUMDB='off',GOTOOLCHAIN='local')
M=[
 ('c07-lt08','C07','internal/magic/text.go','if b <= 0x08 ||','if b < 0x08 ||'),
 ('c07-drop0b','C07','internal/magic/text.go','			b == 0x0B ||\n',''),
 ('c07-1a','C07','internal/magic/text.go','0x0E <= b && b <= 0x1A ||','0x0E <= b && b < 0x1A ||'),
 ('c05-bufplus1','C05','mimetype.go','in = make([]byte, l)','in = make([]byte, l+1)'),
 ('c05-unexpectedeof','C05','mimetype.go','if err != nil && err != io.EOF && err != io.ErrUnexpectedEOF {','if err != nil && err != io.EOF {'),
 ('c05-swallow','C05','mimetype.go','''		in, err = io.ReadAll(r)
		if err != nil {
			return errMIME, err
		}''','''		in, err = io.ReadAll(r)
		if err != nil && len(in) == 0 {
			return errMIME, err
		}'''),
 ('c16-cap4m','C16','internal/json/parser.go','maxRecursion = 4096','maxRecursion = 1 << 22'),
 ('c16-objlvl','C16','internal/json/parser.go','rv = p.consumeObject(b[n:], qs, lvl+1)','rv = p.consumeObject(b[n:], qs, lvl)'),
 ('c16-poolnocap','C16','internal/json/parser.go','return &parserState{maxRecursion: maxRecursion}','return &parserState{}'),
 ('c18-signedonly','C18','internal/magic/archive.go','return recsum == sum1 || recsum == sum2','return recsum == sum2 || recsum == sum1&0xFFFFFF'),
 ('c18-ge','C18','internal/magic/archive.go','return recsum == sum1 || recsum == sum2','return recsum >= sum1 || recsum == sum2'),
 ('c19-loop3','C19','internal/magic/zip.go','for i := 0; i < 4; i++ {','for i := 0; i < 3; i++ {'),
 ('c12-nolower','C12','internal/charset/charset.go','	return strings.ToLower(xmlEncoding(string(t.Inst)))','	return xmlEncoding(string(t.Inst))'),
 ('c12-bomafter','C12','internal/charset/charset.go','''	if cset := FromBOM(content); cset != "" {
		return cset
	}
	if cset := fromHTML(content); cset != "" {
		return cset
	}''','''	if cset := fromHTML(content); cset != "" {
		return cset
	}
	if cset := FromBOM(content); cset != "" {
		return cset
	}'''),
 ('c12-nopragma','C12','internal/charset/charset.go','if needPragma == dontKnow || needPragma == doNeedPragma && !gotPragma {','if needPragma == dontKnow {'),
 ('c11-len3','C11','internal/charset/charset.go','i >= 0 && i > len(content)-4; i--','i >= 0 && i > len(content)-3; i--'),
 ('c11-swaplatin','C11','internal/charset/charset.go','''	if hasControlBytes {
		return "windows-1252"
	}
	return "iso-8859-1"''','''	if hasControlBytes {
		return "iso-8859-1"
	}
	return "windows-1252"'''),
 ('c13-fields0','C13','internal/magic/text_csv.go','return r.FieldsPerRecord > 1 && lines > 1','return r.FieldsPerRecord > 0 && lines > 1'),
 ('c13-lines0','C13','internal/magic/text_csv.go','return r.FieldsPerRecord > 1 && lines > 1','return r.FieldsPerRecord > 1 && lines > 0'),
 ('c13-droplast-le','C13','internal/magic/text_csv.go','if readLimit == 0 || uint32(len(b)) < readLimit {','if readLimit == 0 || uint32(len(b)) <= readLimit {'),
 ('c13-ndjson-count','C13','internal/magic/text.go','return lCount > 1 && objOrArr > 0','return lCount > 0 && objOrArr > 0'),
 ('c08-le','C08','internal/magic/text.go','if limit == 0 || lraw < int(limit) {','if limit == 0 || lraw <= int(limit) {'),
 ('c08-parsed','C08','internal/magic/text.go','return inspected == lraw && lraw > 0','return parsed == lraw && lraw > 0'),
 ('c09-closer','C09','internal/json/parser.go','''		case ']':
			p.ib++
			p.currPath = p.currPath[:len(p.currPath)-1]
			return n + 1
		default:
			return 0
		}
	}
	return 0
}

func queryPathMatch''','''		case ']', '}':
			p.ib++
			p.currPath = p.currPath[:len(p.currPath)-1]
			return n + 1
		default:
			return 0
		}
	}
	return 0
}

func queryPathMatch'''),
 ('c15-nolower','C15','mime.go','''	expectedMIME, _, _ = mime.ParseMediaType(expectedMIME)
	found, _, _ := mime.ParseMediaType(m.mime)
''','''	expectedMIME, _, _ = mime.ParseMediaType(expectedMIME)
	found, _, _ := mime.ParseMediaType(m.mime)
	if len(m.aliases) == 0 && found != expectedMIME {
		return false
	}
'''),
 ('c15-skipalias-last','C15','mime.go','	for _, alias := range m.aliases {\n		if alias == expectedMIME {','	for _, alias := range m.aliases[:len(m.aliases)/2*2] {\n		if alias == expectedMIME {'),
 ('c14-append','C14','mime.go','m.children = append([]*MIME{c}, m.children...)','m.children = append(m.children[:len(m.children):len(m.children)], c)'),
 ('c14-noparent','C14','mime.go','		parent:    m,\n',''),
 ('c06-plainload','C06','mimetype.go','	l := atomic.LoadUint32(&readLimit)\n	if l > 0 && len(in) > int(l) {','	l := readLimit\n	if l > 0 && len(in) > int(l) {'),
 ('c06-lookup-nolock','C06','mimetype.go','''func Lookup(mime string) *MIME {
	mu.RLock()
	defer mu.RUnlock()
	return root.lookup(mime)''','''func Lookup(mime string) *MIME {
	return root.lookup(mime)'''),
 ('c04-noreset-path','C04','internal/json/parser.go','	p.currPath = p.currPath[0:0]\n',''),
 ('c04-reader-noreset','C04','internal/magic/text_csv.go','	br.Reset(r)\n	return br','	if br.Buffered() == 0 {\n		br.Reset(r)\n	}\n	return br'),
 ('c01-ftyp11','C01','internal/magic/magic.go','		if len(raw) < 12 {\n			return false\n		}\n		for _, s := range sigs {\n			if bytes.Equal(raw[8:12], s) {','		if len(raw) < 11 {\n			return false\n		}\n		for _, s := range sigs {\n			if bytes.Equal(raw[8:12], s) {'),
 ('c01-ole-lt','C01','internal/magic/ms_office.go','if len(in) <= clsidOffset+16 {','if len(in) < clsidOffset {'),
 ('c01-advance-neg','C01','internal/magic/magic.go','if n < 0 || len(*b) < n {','if len(*b) < n {'),
 ('c01-uescape','C01','internal/json/parser.go','for j := 0; j < 4 && len(b[n:]) > 0; j++ {','for j := 0; j < 4; j++ {'),
 ('c17-exactlen','C17','internal/magic/binary.go','	if len(raw) < 4 {\n		return false\n	}\n\n	be := binary.BigEndian.Uint32(raw)','	if len(raw) < 4 || len(raw) > 4096 {\n		return false\n	}\n\n	be := binary.BigEndian.Uint32(raw)'),
 ('c17-elf-upper','C17','internal/magic/binary.go','	return len(raw) > 17 && ((raw[16] == 0x03 && raw[17] == 0x00) ||','	return len(raw) > 17 && len(raw) < 2000 && ((raw[16] == 0x03 && raw[17] == 0x00) ||'),
 ('c10-nopop-comma','C10','internal/json/parser.go','''		case ',':
			p.currPath = p.currPath[:len(p.currPath)-1]
			n++''','''		case ',':
			n++'''),
 ('c10-suffix','C10','internal/json/parser.go','''	if len(path1) != len(path2) {
		return false
	}
	for i := range path1 {
		if !bytes.Equal(path1[i], path2[i]) {''','''	if len(path1) > len(path2) {
		return false
	}
	path2 = path2[len(path2)-len(path1):]
	for i := range path1 {
		if !bytes.Equal(path1[i], path2[i]) {'''),
 ('c02-csv-charset','C02','mime.go','		"text/xml":   charset.FromXML,','		"text/xml":   charset.FromXML,\n		"text/csv":   charset.FromPlain,'),
 ('c03-lastchild','C03','mime.go','''	for _, c := range m.children {
		if c.detector(in, readLimit) {
			return c.match(in, readLimit)
		}
	}''','''	for _, c := range m.children {
		if c.detector(in, readLimit) {
			if r := c.match(in, readLimit); r.mime != c.mime || len(c.children) == 0 || len(in) < 4000 {
				return r
			}
		}
	}'''),
]
subprocess.run('git -C /repo worktree remove --force %s 2>/dev/null; git -C /repo worktree prune; git -C /repo worktree add -q --detach %s HEAD'%(SW,SW),shell=True,check=True)
out='/verif/seeded_own'
idx=[]
for name,prop,f,old,new in M:
    subprocess.run('git checkout -- . && git clean -fdq',shell=True,cwd=SW)
    p=os.path.join(SW,f); s=open(p).read()
    if s.count(old)!=1:
        print(name,'SKIP: pattern count',s.count(old)); continue
    open(p,'w').write(s.replace(old,new))
    b=subprocess.run('gofmt -l . ; go build ./... && go vet ./... && go build -tags verif ./...',shell=True,cwd=SW,env=env,capture_output=True,text=True)
    if b.returncode!=0:
        print(name,'SKIP: does not build',(b.stdout+b.stderr)[-300:]); continue
    t=subprocess.run('go test -vet=off -count=1 ./...',shell=True,cwd=SW,env=env,capture_output=True,text=True)
    subprocess.run('git checkout -- supported_mimes.md',shell=True,cwd=SW)
    d=subprocess.run('git diff',shell=True,cwd=SW,capture_output=True,text=True).stdout
    open('%s/%s.diff'%(out,name),'w').write(d)
    idx.append({'name':name,'property':prop,'file':f,'repo_suite_passes':t.returncode==0})
    print(name,prop,'suite','PASS' if t.returncode==0 else 'FAILS')
subprocess.run('git -C /repo worktree remove --force %s; git -C /repo worktree prune'%SW,shell=True)
json.dump(idx,open(out+'/index.json','w'),indent=1)
