#!/bin/bash
# usage: tools/run_all.sh <quick|thorough> [ids…]   — runs the registered checks one after the other, prints one line per check
TIER="${1:-quick}"; shift
cd "$(dirname "$0")/.."
IDS="$@"
if [ -z "$IDS" ]; then IDS=$(python3 -c "import json;print(' '.join(c['property_id'] for c in json.load(open('MANIFEST.json'))['checks']))"); fi
for id in $IDS; do
  t0=$(date +%s.%N)
  ./check $id $TIER > out/run_all_$id.log 2>&1; rc=$?
  t1=$(date +%s.%N)
  printf "%s %s exit=%d %.1fs %s\n" $id $TIER $rc $(echo "$t1 - $t0" | bc) "$(grep -E '^C[0-9]+ ' out/run_all_$id.log | cut -c1-150)"
  grep -E "^(VIOLATION|INFRA|INCONCLUSIVE)" out/run_all_$id.log | head -3
done
