#!/usr/bin/env python3
"""Verifies candidate seeded changes: each must apply, build, vet, pass the repo suite,
and its demonstration must FAIL with the change and PASS without it.
usage: verify_seeds.py <raw_dir> <out_dir>   (raw_dir/<Cxx>/<k>/{patch.diff,*_test.go,notes.md})"""
import os,sys,subprocess,json,shutil,re,glob
raw,outd=sys.argv[1],sys.argv[2]
env=dict(os.environ,GOFLAGS='-mod=mod',GOPROXY='off',GOSUMDB='off',GOTOOLCHAIN='local')
SW='/tmp/sw'
def sh(cmd,cwd=SW,timeout=600):
    try:
        p=subprocess.run(cmd,shell=True,cwd=cwd,env=env,capture_output=True,text=True,errors='replace',timeout=timeout)
        return p.returncode,(p.stdout+p.stderr)[-1500:]
    except subprocess.TimeoutExpired:
        return 124,'timeout'
subprocess.run('git -C /repo worktree remove --force /tmp/sw 2>/dev/null; git -C /repo worktree prune; git -C /repo worktree add -q --detach /tmp/sw HEAD',shell=True,check=True)
head=subprocess.run('git -C /repo rev-parse --short HEAD',shell=True,capture_output=True,text=True).stdout.strip()
results=[]
for prop in sorted(os.listdir(raw)):
    for k in sorted(os.listdir(os.path.join(raw,prop))):
        d=os.path.join(raw,prop,k)
        if not os.path.exists(d+'/patch.diff'): continue
        sid='%s-%s'%(prop,k)
        demos=glob.glob(d+'/*_test.go')+glob.glob(d+'/*.go')
        demos=sorted(set(demos))
        def pkgdir(f):
            m=re.search(r'^package\s+(\w+)',open(f,errors='replace').read(),re.M)
            p=m.group(1) if m else 'mimetype'
            return {'charset':'internal/charset','magic':'internal/magic','json':'internal/json'}.get(p,'.')
        notes=open(d+'/notes.md',errors='replace').read() if os.path.exists(d+'/notes.md') else ''
        race=' -race' if (prop=='C06' and '-race' in notes and 'needs `-race`' in notes.lower() or (sid in ('C06-2','C06-r2-1','C06-r3-2','C06-r4-3','C06-r5-2','C06-r5-3','C06-r6-3','C06-r7-1','C06-r7-3','C08-r8-2','C04-r9-2'))) else ''
        def clean(): sh('git checkout -- . && git clean -fdq')
        def place():
            pk=set()
            for f in demos:
                shutil.copy(f,os.path.join(SW,pkgdir(f),os.path.basename(f))); pk.add('./'+pkgdir(f) if pkgdir(f)!='.' else '.')
            return ' '.join(sorted(pk))
        r={'id':sid,'property':prop,'race_demo':bool(race)}
        clean()
        pk=place()
        r['demo_without_patch'],o1=sh('go test -vet=off -count=1%s -timeout 10m %s'%(race,pk))
        clean()
        r['apply'],oa=sh('git apply %s/patch.diff'%d)
        r['build'],ob=sh('go build ./... && go vet ./... && go build -tags verif ./...')
        r['suite_with_patch'],os_=sh('go test -vet=off -count=1 ./...')
        sh('git checkout -- supported_mimes.md')
        pk=place()
        r['demo_with_patch'],o2=sh('go test -vet=off -count=1%s -timeout 10m %s'%(race,pk))
        clean()
        ok=(r['demo_without_patch']==0 and r['apply']==0 and r['build']==0 and r['suite_with_patch']==0 and r['demo_with_patch']!=0)
        r['confirmed']=ok
        r['demo_with_patch_tail']=o2[-400:]
        if not ok: r['diagnostics']={'without':o1[-300:],'apply':oa[-300:],'build':ob[-300:],'suite':os_[-300:]}
        print(sid,'CONFIRMED' if ok else 'REJECTED',{k:v for k,v in r.items() if k in('demo_without_patch','apply','build','suite_with_patch','demo_with_patch')},flush=True)
        results.append(r)
        if ok:
            od=os.path.join(outd,sid); os.makedirs(od,exist_ok=True)
            shutil.copy(d+'/patch.diff',od+'/patch.diff')
            for f in demos: shutil.copy(f,od+'/'+os.path.basename(f))
            if notes: open(od+'/agent_notes.md','w').write(notes)
            first=[l for l in notes.splitlines() if l.strip()]
            meta={'id':sid,'breaks_property':prop,'source':'independent sub-agent given only the property text and a scratch worktree',
              'base_commit':head,
              'summary':first[0].lstrip('# ').strip() if first else '',
              'needs_to_manifest':'see agent_notes.md (section on what is needed to manifest)',
              'demo_files':[os.path.basename(f) for f in demos],'demo_package_dir':sorted(set(pkgdir(f) for f in demos)),
              'confirmed_by':{'commands':['git apply patch.diff','go build ./... && go vet ./... && go build -tags verif ./...','go test -vet=off -count=1 ./...  (suite, demo absent)','go test -vet=off -count=1%s <demo package>  (demo present)'%race],
                 'demo_without_patch_exit':r['demo_without_patch'],'suite_with_patch_exit':r['suite_with_patch'],'demo_with_patch_exit':r['demo_with_patch'],'demo_needs_race':bool(race)},
              'detected_by':{}}
            json.dump(meta,open(od+'/meta.json','w'),indent=1)
subprocess.run('git -C /repo worktree remove --force /tmp/sw; git -C /repo worktree prune',shell=True)
json.dump(results,open(os.path.join(outd,'verification_results.json'),'w'),indent=1)
print('confirmed',sum(1 for r in results if r['confirmed']),'of',len(results))
