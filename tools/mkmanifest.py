#!/usr/bin/env python3
"""Generates MANIFEST.json. Edit BUILT / META here, then run."""
import json,os,subprocess
root=os.path.dirname(os.path.dirname(os.path.abspath(__file__)))
BUILT=["C01","C02","C03","C04","C05","C06","C07","C08","C09","C10","C11","C12","C13","C14","C15","C16","C17","C18","C19"]
RT="runtime monitoring: "
def M(cat,sec,tech,text,note): return dict(cat=cat,ref="DESIGN.md §4 "+sec,technique=RT+tech,text=text,note=note)
HELD=" Held = no refuting execution among those observed (counts in the evidence file); it is not a proof for all inputs."
META={
 "C01":M("exploration","C01","guard-page / cap==len input buffers (home-made memory sanitizer), panic recovery, child-process crash isolation with traced re-run, stall + hang watchdog, -race/checkptr build in thorough",
   "Every registered detector, the un-sliced tree walk and Detect are driven with every seed at every prefix length, injected 32-bit field values, mutants and targeted arithmetic families (zip/CRX/OLE incl. every 16-bit header field at 0-70 and the extremes/Matroska/escape tails/small boxes/nesting bombs), each input ending exactly at an inaccessible page with cap == len, under 10 limits incl. 0 and 2^32-1; every string / byte literal of the tree under test (parsed from the source at run time) as input, splice fragment and tail; cut / valueless HTML and XML declarations; readers and files on a subset. A panic, a fault on the guard page, a nil result or a non-returning call is a violation."+HELD,
   "Trusted: Go runtime bounds checks, mmap/mprotect semantics, the watchdog thresholds (120 s stall, 180 s single case). linux/amd64 only."),
 "C02":M("exploration","C02","result-invariant monitor (written from the statement) over every (value, error) returned under hostile charset labels, all entry points, failing readers / seekers / files, strace-injected kernel faults (close/read EIO), extended trees",
   "Every single byte 0x09-0xFF and runs over a hostile alphabet are spliced as charset labels into 9 declaration syntaxes; readers fail at every offset class with 19 classes of error values (incl. io.ErrUnexpectedEOF and wrapped io.EOF from the source itself), seekers fail, files are missing or directories; plus every seed prefix, mutants and generated documents. Each returned value is checked: String() parses, type registered, only charset on the three text types, finite bare registered ancestors ending at application/octet-stream, error => exactly application/octet-stream."+HELD,
   "Trusted: mime.ParseMediaType as the definition of validity; the snapshot hook for the set of registered names."),
 "C03":M("exploration","C03","online trace-specification checking of recorded detector-call events (instrumentation hook) + independent reference walk, also under a concurrent registrar / concurrent SetLimit",
   "All detector calls of each detection are recorded through a build-tagged hook (node, buffer pointer, len, limit, answer) and checked online against the first-match depth-first specification (no skip / backtrack / reorder, same header and limit everywhere, result chain = accepting path), then against an independent iterative walk, on the built-in tree and on trees enlarged by random Extend histories, with greybox input mutation keyed on new accept paths; through Detect, DetectReader (odd chunkings, shorter after longer inputs) and the direct match hook; also while other goroutines call SetLimit or Extend. Some walks go through DetectFile on a named pipe whose writer pauses between two pieces: the detectors must still be handed the first min(len, limit) bytes."+HELD,
   "Trusted: leaf detector funcs are shared with the model (their purity is C04); the hook wraps detectors under the tree lock."),
 "C05":M("fault_enumeration","C05","instrumented io.Reader (byte counter, chunk scheduler, error injector) with expectations derived from observed reader events; standard-library reader zoo with consumption checks; file-system faults (missing, directory, /proc/self/mem, procfs size 0)",
   "For every seed and limit class a sentinel error is injected at every byte offset 0..min(len, limit) (every k-th beyond 600 bytes) under 8 chunk schedules with (0,nil) reads, data+EOF and data+error returns; error values of 15 classes (deadline / context / closed pipe / errno / EOF look-alikes); the standard library's concrete readers; DetectFile over temp files, procfs files of stat size 0, sparse files of 2-8 GiB, missing path, directory, /proc/self/mem; limit changed during the read. Checked: same chain as Detect on the bytes, bytes consumed <= limit (all when 0), error => (application/octet-stream, that error) exactly when the reader really failed before the header was complete."+HELD,
   "Trusted: only conforming readers; io.ReadFull semantics for an error returned with the completing byte."),
 "C07":M("exploration","C07","independent byte-class oracle over injected inputs, every result of the real Detect/DetectReader observed",
   "Every one of the 256 byte values is placed at every position of short text bases (inside, last-inside and just outside the examined header), BOMs / BOM prefixes / near misses are combined with binary bytes, and every corpus seed is run alone, BOM-prefixed, sanitised and re-injected; DetectFile on procfs files (stat size 0) and temp files; each real detection result is judged by a byte-class predicate written from the statement. DetectFile on a named pipe whose writer delivers a clean first piece, pauses and then delivers the binary byte (limits on both sides of it)."+HELD,
   "Trusted: the hard-coded byte ranges / BOM table of the oracle."),
 "C08":M("exploration","C08","generated RFC 8259 documents (validated by encoding/json) detected at every cut point; oracle = membership in the JSON family with a priority-exception rule from the tree snapshot",
   "Random and hostile valid documents (strings starting/ending with structural characters, escapes, multi-byte runes, all number spellings, 3 whitespace layouts) are detected at EVERY limit from the opening bracket to len+1 and 0, long documents around the default limit, nesting ladders to 4096; entry points Detect / oddly chunked DetectReader / DetectFile, and a reader that changes the limit from inside Read; every printable literal of the tree's source as a string / key at signature offsets. A higher-priority verdict is an exception only if the bytes carry that format's pinned signature."+HELD,
   "Trusted: encoding/json.Valid; sibling order from the snapshot for the exception clause (that the higher-priority node really matched is C03)."),
 "C09":M("exploration","C09","bounded-exhaustive enumeration + mutation against an independent reference recogniser of the relaxed JSON language",
   "ALL token sequences up to 6 (quick) / 7 (thorough) tokens over a 16-token JSON alphabet, whole and truncated modes, through Detect and the JSON signature check directly, plus mutated valid documents; a JSON-family verdict must imply Complete (whole) / not Fail (prefix) per the reference recogniser."+HELD+" exhaustive for the stated alphabet and length only.",
   "Trusted: oracle/refjson.go (relaxed grammar written from the statement; self-checked against encoding/json.Valid on every case)."),
 "C10":M("exploration","C10","structure-built JSON objects with the verdict computed on the member list, detected whole and at every limit keeping the deciding member",
   "Objects are built as member lists (deciders for geojson/har/gltf in every accepted form, look-alikes, nested re-use of the query keys, arrays, duplicates), all permutations for <= 5 members, 10 whitespace layouts incl. CRLF and white space before the opening brace, siblings nested 100-300 deep (also inside log / asset in front of the deciding key), whole and truncated at every limit from the end of the deciding value."+HELD,
   "Trusted: the verdict function written from the statement; deciding keys/values spelled literally."),
 "C11":M("exploration","C11","bounded-exhaustive byte-class enumeration against an explicit UTF-8 prefix validator and the statement's three rules",
   "ALL strings up to length 4 over a 27-symbol byte-class alphabet through Detect (whole and cut), up to length 5/6 through charset.FromPlain, real UTF-8/Latin-1/Windows-1252 paragraphs at every limit and start offset, BOMs."+HELD+" exhaustive for the stated alphabet and lengths only.",
   "Trusted: the table-driven utf8Scan oracle (self-checked against unicode/utf8.Valid); the empty input is not asserted."),
 "C12":M("exploration","C12","generated HTML/XML declarations with a known label; reported charset parameter compared with the statement's mapping",
   "One declaration in 9 HTML syntaxes / XML prologue variants after 13 openings, decoys (comments, script/style/title/textarea with fake metas, non-pragma metas), optional >4 KiB token, BOM; every token character and 35 real labels; limits incl. exactly the end of the declaration; a generated document not reported as HTML / XML at all is a violation too."+HELD,
   "Trusted: labels exclude '&' and quotes; XML '=' whitespace, BOM+XML and target case are informational only."),
 "C13":M("exploration","C13","generated tables / NDJSON streams at every limit (forward) and damaged tables / line soups judged per line by the reference recogniser (converse)",
   "Rectangular CSV/TSV tables and NDJSON streams are detected at EVERY limit from just past the second line to len; tables with one damaged complete line (up to 2500 rows, the bad row also behind rows 1000 / 1024 / 2048) and line soups with malformed lines must not be reported; markup-like first cells; a verdict of another text format needs that format's pinned signature."+HELD,
   "Trusted: refjson for per-line completeness; 'complete line' = newline-terminated inside a cut header; comment-line dialect per the converse clause."),
 "C14":M("exploration","C14","model-based checking of Extend histories (independent walk + harness-side extension list), Lookup and earlier-value checks, fresh-process histories, concurrent registration rounds",
   "Thousands of random Extend histories (root, built-ins at any depth by name or alias, earlier extensions; 9 predicate kinds) are applied to the library and mirrored in the model; ~80 inputs x 3 limits per history are compared with the model and with the pre-history baseline, every name/alias is looked up (before and after registration; names and extensions are sometimes re-used; a registered name that is no longer found is a violation), values returned mid-history are re-read; a sample of histories runs in fresh processes without the reset hook; detections go through Detect, oddly chunked DetectReader and DetectFile. In one history in five 2-3 extensions are registered from a family table (the same alias slice, listing all members, handed to each Extend call); the model goes by a copy the library never sees."+HELD,
   "Trusted: extension detectors shared with the model; the model's insertion rule is the statement's."),
 "C15":M("exploration","C15","exhaustive (format x name) matrix with random well-formed decorations against a 3-line normaliser; self-equality of every detection result",
   "Exhaustive format x registered-name matrix undecorated and with random case / whitespace / parameter decorations (quoted, RFC 2231), EqualsAny over decorated pairs, Lookup(a).Is(a) for every name and alias, and for detection results (incl. quoted / RFC 2231 charsets) d.Is(d.String()), EqualsAny, Lookup of the bare type, ancestors answering to their aliases; names registered at run time with alias slices whose spare capacity is watched for writes."+HELD,
   "Trusted: the normaliser; only well-formed, duplicate-free parameter lists are generated."),
 "C16":M("exploration","C16","fault isolation under debug.SetMaxStack(64 MiB) + per-goroutine stack-size monitor (MemStats.StackInuse with the goroutine parked) + verdict oracle",
   "8 nesting shapes x depths to 10^6 (10^7 thorough) x closed/unclosed x 6 modes x 7 primer detections on the same pooled parser state (GOMAXPROCS=1, GC off); ~75 non-nesting units (BOMs, white space, markup openers, separators, magic numbers) and source literals repeated to 6 / 24 MiB. Stack overflow kills the child and is pinned; stack growth must plateau; anything nested deeper than 8192 must not be reported as JSON / NDJSON."+HELD,
   "Trusted: StackInuse deltas as the stack-size measure; plateau threshold max(4 x size at depth 8192, 8 MiB)."),
 "C17":M("exploration","C17","limit sweep per input (all limits to a dense bound, structural neighbourhoods beyond, 0 as largest) with a monotone class oracle",
   "Every seed, seeds with tails, mutants and structured inputs whose deciding bytes lie at offsets given by length fields (ID3, CRX, tar members, OLE, Matroska, zip, fixed-offset signatures) are detected at every limit; seeds' magic numbers followed by every literal of the signature packages (read from the tree under test); DetectReader with limits next to 2^32; once binary, every larger limit must be binary."+HELD,
   "Trusted: class definition (text = text/plain in the chain); limits between sparse sample points are not executed."),
 "C18":M("exploration","C18","archive/tar as conforming writer + exhaustive single-byte corruption of the first block per archive",
   "Random headers over USTAR/PAX/GNU (hostile names, base-256 ids and sizes, all type flags, header-only members that record a size and are followed by a member with data) written by archive/tar must be reported as application/x-tar (the reported type itself) unless a higher-priority root format's pinned signature is carried by the leading bytes; member names and member data carry other formats' signatures; entry points Detect, DetectReader (odd chunks), DetectFile on a file, a symbolic link and a named pipe; then all 504 x 255 single-byte corruptions outside the checksum field must not be tar."+HELD+" One known finding (gpkg exclusion) is replayed and listed.",
   "Trusted: archive/tar; names ending in /gpkg-1 are excluded from generation (KNOWN_FINDINGS)."),
 "C19":M("exploration","C19","archive/zip as writer AND reader: verdict predicted from the read-back entry list, 9 writer layouts per entry",
   "Generated entry lists (OOXML bookkeeping, markers at positions 2-10, near misses incl. every marker in other letter cases, directory entries, JAR/APK/ODF/EPUB, unrelated) written with 9 per-entry layouts (descriptor / sizes, store / deflate, extra field, ZIP64-form header, directories, local headers whose own DOS time / date / CRC-32 fields spell PK\\x03\\x04) incl. an aliasing body family; P1 P2 P3 N1 N2 and the application/zip parent are decided from zip.Reader's names."+HELD+" One known finding (phantom header inside the second local header) is replayed and listed.",
   "Trusted: archive/zip; P3 only for a stored mimetype entry without extra field; P1 only for exactly one kind of marker among entries 2-6."),
 "C04":M("exploration","C04","history differential against construction/oracle expectations with a fresh-process-per-probe baseline; pooled-state observation through a peek hook; read-only (mprotect) inputs; tail / spare-capacity poison differential; concurrent part under the race detector",
   "39 fixed and generated probes with expectations decided by construction are detected as the first and only call of a fresh process and after histories of 1-6 predecessor detections from 29 kinds (every ordered pair exhaustively) with GOMAXPROCS=1 and GC off so pooled state really is reused (observed through the pool-peek hook); all seeds are detected from read-only pages three times and with 5 different tails / spare-capacity contents beyond the limit; the workload is repeated on 12 goroutines under -race, and detections run while another goroutine alternates the limit between two values with the same sequential answer."+HELD,
   "Trusted: probe expectations (cross-checked by the fresh-process runs); sync.Pool reuse is observed, not forced."),
 "C06":M("exploration","C06","Go race detector over gated stress histories + linearizability checking (porcupine) of recorded call/return histories against register / set models + half-built and caller-array monitors",
   "Thousands of short gated histories (14 goroutines: SetLimit and Extend writers with caller-owned alias slices of every shape, Detect/DetectReader/DetectFile readers on probes that reveal the limit used and the newest extension per parent, limit-sensitive ordinary inputs, Lookup + accessor calls) at GOMAXPROCS 2/4/8/16; race batches under -race (every DATA RACE block is a violation), every history checked per partition with porcupine (limit register incl. sequential table T[x][v], extension register per parent, set per name); looked-up formats must never be half-built and caller alias arrays never written; one input slice detected by 6 goroutines at once (read-only mapping / race detector) and one returned value walked by 6 goroutines at once."+HELD,
   "Trusted: porcupine v1.3.0; monotonic clock for call/return stamps; schedules are sampled; limit and tree are independent registers."),
}
hooks_commits=subprocess.run(["git","-C","/repo","log","--format=%H","--grep=^verif:"],capture_output=True,text=True).stdout.split()
checks=[]
for pid in sorted(BUILT):
    m=META[pid]
    checks.append({
      "property_id":pid,
      "quick_cmd":"./check %s quick"%pid,
      "thorough_cmd":"./check %s thorough"%pid,
      "evidence_file":"/verif/evidence/%s.json"%pid,
      "replay_cmd_template":"./check %s --replay {path}"%pid,
      "engine":"verif-harness",
      "level_claimed":{"category":m["cat"],"text":m["text"],"design_ref":m["ref"]},
      "level_note":m["note"],
      "technique":m["technique"],
    })
props=[json.loads(l)['id'] for l in open(root+'/properties.jsonl')]
na=[{"property_id":p,"reason":"check not built yet in this round (planned, see DESIGN.md §4); runtime monitoring applies to it"} for p in props if p not in BUILT]
man={
 "version":1,
 "setup_cmd":"./setup.sh",
 "hooks":{
   "guard":"verif",
   "enable":"go build -tags verif (the harness module under /verif/harness replaces github.com/gabriel-vasile/mimetype => /repo and is rebuilt by ./check on every run)",
   "baseline_off_cmd":"cd /repo && go test -mod=mod -json -vet=off -count=1 -timeout 25m ./...",
   "source_commits":hooks_commits,
   "add_only":True,
 },
 "engines":[{"name":"verif-harness","path":"/verif/harness","serves_properties":sorted(BUILT),
   "kind_free_text":"Go harness: supervisor + one child process per batch (crash isolation), build-tagged hooks into the library, independent oracles/reference models, guard-page buffers, Go race detector, porcupine history checking"}],
 "checks":checks,
 "not_applicable":na,
 "notes":"Family: runtime monitoring and sanitizers. VERIF_SEED seeds every workload (default 1); VERIF_TIER overrides the tier. exit 0 held / 1 VIOLATION / 2 infrastructure error. Known findings: /verif/KNOWN_FINDINGS.txt (two open entries: C18, a tar whose first member is named pkg/gpkg-1; C19, a marker-free zip whose second local header spells PK\\x03\\x04 in its own date / CRC fields behind a short first name and is reported as APK - each printed as KNOWN-FINDING, exit 0; ten fixed entries for the nine repaired defects). VERIF_REPO=<dir> makes the checks build against another working tree (used by background sweeps). Inconclusive batches are printed as INCONCLUSIVE lines and do not change the exit code.",
}
json.dump(man,open(root+'/MANIFEST.json','w'),indent=1)
print("wrote MANIFEST.json with",len(checks),"checks;",len(na),"not_applicable")
