#!/usr/bin/env python3
"""Generates MANIFEST.json. Edit BUILT / META here, then run."""
import json,os,subprocess
root=os.path.dirname(os.path.dirname(os.path.abspath(__file__)))
BUILT=["C07","C08"]
META={
 "C07":dict(cat="exploration",ref="DESIGN.md §4 C07",
   technique="runtime monitoring: independent byte-class oracle over generated/injected inputs, every result of the real Detect/DetectReader observed",
   text="Every one of the 256 byte values is placed at every position of short text bases (inside, last-inside and just outside the examined header), BOMs/near-BOMs are combined with binary bytes, and every corpus seed is run alone, BOM-prefixed, sanitised and re-injected; each real detection result is judged by a byte-class predicate written from the statement. Held = no refuting execution among those observed; not a proof for all inputs.",
   note="Trusted: the hard-coded byte ranges/BOM table of the oracle; the Go runtime. Inputs beyond the generated families are not covered."),
}
hooks_commits=subprocess.run(["git","-C","/repo","log","--format=%H","--grep=^verif:"],capture_output=True,text=True).stdout.split()
checks=[]
for pid in sorted(BUILT):
    m=META[pid]
    checks.append({
      "property_id":pid,
      "quick_cmd":"./check %s quick"%pid,
      "thorough_cmd":"./check %s thorough"%pid,
      "evidence_file":"/verif/evidence/%s.json"%pid,
      "replay_cmd_template":"./check %s --replay {path}"%pid,
      "engine":"verif-harness",
      "level_claimed":{"category":m["cat"],"text":m["text"],"design_ref":m["ref"]},
      "level_note":m["note"],
      "technique":m["technique"],
    })
props=[json.loads(l)['id'] for l in open(root+'/properties.jsonl')]
na=[{"property_id":p,"reason":"check not built yet in this round (planned, see DESIGN.md §4); runtime monitoring applies to it"} for p in props if p not in BUILT]
man={
 "version":1,
 "setup_cmd":"./setup.sh",
 "hooks":{
   "guard":"verif",
   "enable":"go build -tags verif (the harness module under /verif/harness replaces github.com/gabriel-vasile/mimetype => /repo and is rebuilt by ./check on every run)",
   "baseline_off_cmd":"cd /repo && go test -mod=mod -json -vet=off -count=1 -timeout 25m ./...",
   "source_commits":hooks_commits,
   "add_only":True,
 },
 "engines":[{"name":"verif-harness","path":"/verif/harness","serves_properties":sorted(BUILT),
   "kind_free_text":"Go harness: supervisor + one child process per batch (crash isolation), build-tagged hooks into the library, independent oracles/reference models, guard-page buffers, Go race detector, porcupine history checking"}],
 "checks":checks,
 "not_applicable":na,
 "notes":"Family: runtime monitoring and sanitizers. VERIF_SEED seeds every workload (default 1); VERIF_TIER overrides the tier. exit 0 held / 1 VIOLATION / 2 infrastructure error. Known findings: /verif/KNOWN_FINDINGS.txt (no open entries).",
}
json.dump(man,open(root+'/MANIFEST.json','w'),indent=1)
print("wrote MANIFEST.json with",len(checks),"checks;",len(na),"not_applicable")
