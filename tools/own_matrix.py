#!/usr/bin/env python3
import json,subprocess,sys,time
idx=json.load(open('/verif/seeded_own/index.json'))
only=sys.argv[1:]
for e in idx:
    if only and e['name'] not in only: continue
    assert subprocess.run('git -C /repo status --porcelain --untracked-files=no',shell=True,capture_output=True,text=True).stdout.strip()=='' 
    if subprocess.run('git -C /repo apply /verif/seeded_own/%s.diff'%e['name'],shell=True).returncode: print(e['name'],'cannot apply'); continue
    try:
        t0=time.time()
        p=subprocess.run('./check %s quick'%e['property'],shell=True,cwd='/verif',capture_output=True,text=True)
        kinds=sorted(set(l.split()[1].split('=')[1] for l in p.stdout.splitlines() if l.startswith('violation kind=')))
        e['detected']={'exit':p.returncode,'kinds':kinds,'wall_s':round(time.time()-t0,1)}
        print(e['name'],e['property'],'suite-passes' if e['repo_suite_passes'] else 'suite-fails','CAUGHT' if p.returncode==1 else 'MISSED(exit=%d)'%p.returncode,kinds,e['detected']['wall_s'],flush=True)
    finally:
        subprocess.run('git -C /repo checkout -- .',shell=True)
json.dump(idx,open('/verif/seeded_own/index.json','w'),indent=1)
