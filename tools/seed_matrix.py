#!/usr/bin/env python3
"""Runs checks against the seeded changes in /verif/seeded and records which check catches which change.
usage: seed_matrix.py [tier] [seed ids…]    (default: quick, all). Applies each patch to /repo, runs, restores /repo."""
import os,sys,subprocess,json,time
root=os.path.dirname(os.path.dirname(os.path.abspath(__file__)))
REPO=os.environ.get('VERIF_REPO','/repo')   # a scratch worktree when run in a background snapshot (the checks honour VERIF_REPO too)
tier=sys.argv[1] if len(sys.argv)>1 else 'quick'
ids=sys.argv[2:] or sorted(d for d in os.listdir(root+'/seeded') if os.path.isdir(root+'/seeded/'+d))
EXTRA={'C01-3':['C16'],'C04-3':['C06'],'C05-3':['C06'],'C03-2':['C06'],'C14-2':['C06'],'C15-1':['C02'],'C07-3':['C05'],'C02-2':['C05'],'C16-1':['C01'],'C05-2':['C07'],'C03-r3-2':['C06'],'C03-r3-3':['C04'],'C07-r3-3':['C03','C14'],'C04-r3-1':['C05'],'C13-r3-2':['C04','C06'],'C11-r3-3':['C12'],'C06-r5-2':['C04'],'C03-r5-1':['C05'],'C02-r5-3':['C03','C14'],'C03-r5-2':['C02'],'C14-r5-2':['C02'],'C04-r5-3':['C05','C07'],'C05-r5-1':['C04'],'C07-r5-3':['C05'],'C01-r5-1':['C16'],'C04-r5-1':['C16'],'C16-r5-1':['C01','C04'],'C12-r5-2':['C05','C03'],'C05-r5-2':['C03'],'C07-r5-2':['C05','C03'],'C15-r5-1':['C02'],'C02-r5-1':['C15'],'C14-r5-1':['C15'],'C15-r5-2':['C14'],'C10-r5-1':['C04'],'C13-r5-1':['C04'],'C09-r5-1':['C04'],'C13-r5-3':['C08'],'C08-r5-2':['C13'],'C14-r8-1':['C03','C06'],'C15-r8-2':['C06','C14'],'C14-r8-3':['C02'],'C16-r8-2':['C01'],'C08-r8-2':['C04','C06'],'C05-r8-2':['C18'],'C18-r8-2':['C05']}
def clean():
    st=subprocess.run('git -C '+REPO+' status --porcelain --untracked-files=no',shell=True,capture_output=True,text=True).stdout.strip()
    return st==''
assert clean(),'/repo not clean'
for sid in ids:
    d=root+'/seeded/'+sid
    meta=json.load(open(d+'/meta.json'))
    prop=meta['breaks_property']
    checks=[prop]+EXTRA.get(sid,[])
    r=subprocess.run('git -C '+REPO+' apply %s/patch.diff'%d,shell=True)
    if r.returncode!=0:
        print(sid,'cannot apply'); continue
    try:
        for ck in checks:
            t0=time.time()
            p=subprocess.run('./check %s %s'%(ck,tier),shell=True,cwd=root,capture_output=True,text=True,errors='replace')
            kinds=sorted(set(l.split()[1].split('=')[1] for l in p.stdout.splitlines() if l.startswith('violation kind=')))
            nv=sum(1 for l in p.stdout.splitlines() if l.startswith('VIOLATION'))
            res={'tier':tier,'exit':p.returncode,'violation_lines':nv,'violation_kinds':kinds,'wall_s':round(time.time()-t0,1)}
            meta.setdefault('detected_by',{})[ck]=res
            print(sid,ck,'CAUGHT' if p.returncode==1 and nv>0 else 'MISSED(exit=%d)'%p.returncode,kinds,res['wall_s'],flush=True)
    finally:
        subprocess.run('git -C '+REPO+' checkout -- .',shell=True)
    json.dump(meta,open(d+'/meta.json','w'),indent=1)
assert clean()
