#!/bin/bash
# usage: tools/mutant_run.sh <patch.diff|revert:<commit>> <tier> <Cxx> [Cyy …]
# Applies a change to /repo's working tree, runs the listed checks, restores /repo.
set -u
P="$1"; TIER="$2"; shift 2
cd /repo || exit 2
if [ -n "$(git status --porcelain --untracked-files=no)" ]; then echo "/repo not clean"; exit 2; fi
if [[ "$P" == revert:* ]]; then
  git diff "${P#revert:}~1" "${P#revert:}" | git apply -R || { echo "cannot revert"; exit 2; }
else
  git apply "$P" || { echo "cannot apply $P"; exit 2; }
fi
trap 'cd /repo && git checkout -- . ' EXIT
cd /verif
for c in "$@"; do
  echo "=== $c $TIER with $(basename "$P")"
  cp -f "evidence/$c.json" "/tmp/mutant_run.$$.evidence" 2>/dev/null   # the evidence file must describe the unchanged tree only
  ./check "$c" "$TIER" > /tmp/mutant_run.$$.log 2>&1; rc=$?
  if [ -f "/tmp/mutant_run.$$.evidence" ]; then mv -f "/tmp/mutant_run.$$.evidence" "evidence/$c.json"; fi
  grep -E "^(VIOLATION|violation kind|INFRA|C[0-9]+ )" /tmp/mutant_run.$$.log | head -8
  echo "exit=$rc"
  rm -f /tmp/mutant_run.$$.log
done
