#!/usr/bin/env python3
"""Regenerates the seeded-change table of DESIGN.md (between the SEED-TABLE markers) from seeded/*/meta.json."""
import os,json,re
root=os.path.dirname(os.path.dirname(os.path.abspath(__file__)))
def key(s):
    m=re.match(r'C(\d+)(?:-r(\d+))?-(\d+)$',s)
    return (int(m.group(1)),int(m.group(2) or 1),int(m.group(3)))
rows=[]
own=other=0
for sid in sorted((d for d in os.listdir(root+'/seeded') if os.path.isdir(root+'/seeded/'+d)),key=key):
    m=json.load(open(root+'/seeded/%s/meta.json'%sid))
    summ=m.get('summary','').replace('|','/').strip()
    cells=[]
    caught_own=False;caught_any=False
    for ck,r in m.get('detected_by',{}).items():
        c=r['exit']==1 and r['violation_lines']>0
        if c and ck==m['breaks_property']: caught_own=True
        if c: caught_any=True
        if c:
            cells.append('%s: caught (%s; %d s)'%(ck,', '.join(r['violation_kinds']) or 'violation',round(r['wall_s'])))
        else:
            cells.append('%s: not caught (exit %d; %d s)'%(ck,r['exit'],round(r['wall_s'])))
    if caught_own: own+=1
    elif caught_any: other+=1
    rows.append('| `%s` | %s | %s |'%(sid,summ,'; '.join(cells)))
head='| seeded change | what it does (first line of the author\'s notes) | checks run → outcome (violation kinds; wall time) |\n|---|---|---|\n'
tab='<!-- SEED-TABLE-BEGIN (tools/seed_table.py) -->\n'+head+'\n'.join(rows)+'\n<!-- SEED-TABLE-END -->'
p=root+'/DESIGN.md'
s=open(p).read()
if 'SEED-TABLE-BEGIN' in s:
    s=re.sub(r'<!-- SEED-TABLE-BEGIN.*?<!-- SEED-TABLE-END -->',lambda _:tab,s,flags=re.S)
else:
    i=s.index("| seeded change | what it does")
    j=s.index('---------------------------------------------------------------------------',i)
    s=s[:i]+tab+'\n\n'+s[j:]
open(p,'w').write(s)
print('rows',len(rows),'caught by own check',own,'only by another check',other)
