package fw

import (
	"bufio"
	"crypto/sha256"
	"encoding/hex"
	"encoding/json"
	"fmt"
	"os"
	"os/exec"
	"path/filepath"
	"runtime"
	"sort"
	"strings"
	"sync"
	"syscall"
	"time"
)

// SuperOpts configures a supervisor run.
type SuperOpts struct {
	Prop    string
	Tier    string
	Seed    int64
	Exe     string // child binary (no race)
	RaceExe string // child binary built with -race (may be empty)
	Root    string // /verif
}

// hangS: a traced case that stays current this long is a non-returning call.
const hangS = 180

type childOutcome struct {
	res      *Result
	died     bool
	timedOut bool
	internal bool
	logTail  string
	exit     string
}

func tail(path string, n int) string {
	b, err := os.ReadFile(path)
	if err != nil {
		return ""
	}
	if len(b) > n {
		b = b[len(b)-n:]
	}
	return string(b)
}

func head(path string, n int) string {
	b, err := os.ReadFile(path)
	if err != nil {
		return ""
	}
	if len(b) > n {
		b = b[:n]
	}
	return string(b)
}

func runChild(o SuperOpts, p *Prop, b Batch, outDir string, idx int, trace bool, timeoutMul int) childOutcome {
	base := filepath.Join(outDir, fmt.Sprintf("b%03d", idx))
	if trace {
		base += "-trace"
	}
	resPath := base + ".json"
	logPath := base + ".log"
	tracePath := ""
	os.Remove(resPath)
	bj, _ := json.Marshal(b)
	exe := o.Exe
	if b.Race {
		exe = o.RaceExe
	}
	args := []string{"child", "-prop", o.Prop, "-tier", o.Tier, "-seed", fmt.Sprint(o.Seed), "-batch", string(bj), "-out", resPath}
	if trace {
		tracePath = base + ".case"
		os.Remove(tracePath)
		args = append(args, "-trace", tracePath)
	}
	var cmd *exec.Cmd
	if len(b.Strace) > 0 {
		sargs := append(append([]string{}, b.Strace...), exe)
		sargs = append(sargs, args...)
		cmd = exec.Command("strace", sargs...)
	} else {
		cmd = exec.Command(exe, args...)
	}
	lf, err := os.Create(logPath)
	if err != nil {
		return childOutcome{internal: true, logTail: err.Error()}
	}
	defer lf.Close()
	cmd.Stdout = lf
	cmd.Stderr = lf
	cmd.Env = append(os.Environ(), b.Env...)
	// scratch files of the child live under out/ and are removed with the child,
	// also when it is killed (nothing is left in /tmp)
	tmpDir := base + ".tmp"
	os.RemoveAll(tmpDir)
	if os.MkdirAll(tmpDir, 0o700) == nil {
		cmd.Env = append(cmd.Env, "TMPDIR="+tmpDir)
		defer os.RemoveAll(tmpDir)
	}
	if b.Race {
		cmd.Env = append(cmd.Env, "GORACE=halt_on_error=0 log_path="+base+".race")
	}
	cmd.SysProcAttr = &syscall.SysProcAttr{Setpgid: true}
	if err := cmd.Start(); err != nil {
		return childOutcome{internal: true, logTail: "start: " + err.Error()}
	}
	to := b.TimeoutS
	if to <= 0 {
		to = 600
	}
	to *= timeoutMul
	done := make(chan error, 1)
	fin := make(chan struct{})
	go func() { done <- cmd.Wait(); close(fin) }()
	var werr error
	timedOut := false
	hang := make(chan struct{})
	if trace && !b.Slow {
		// In the traced re-run a single case that stays current for hangS
		// seconds is a call that does not return.
		go func() {
			for {
				time.Sleep(2 * time.Second)
				select {
				case <-fin:
					return
				default:
				}
				if st, err := os.Stat(tracePath); err == nil && time.Since(st.ModTime()) > hangS*time.Second {
					close(hang)
					return
				}
			}
		}()
	}
	select {
	case werr = <-done:
	case <-hang:
		timedOut = true
		syscall.Kill(-cmd.Process.Pid, syscall.SIGQUIT)
		select {
		case werr = <-done:
		case <-time.After(10 * time.Second):
			syscall.Kill(-cmd.Process.Pid, syscall.SIGKILL)
			werr = <-done
		}
	case <-time.After(time.Duration(to) * time.Second):
		timedOut = true
		syscall.Kill(-cmd.Process.Pid, syscall.SIGQUIT)
		select {
		case werr = <-done:
		case <-time.After(10 * time.Second):
			syscall.Kill(-cmd.Process.Pid, syscall.SIGKILL)
			werr = <-done
		}
	}
	out := childOutcome{timedOut: timedOut}
	if werr != nil {
		out.exit = werr.Error()
	}
	if rb, err := os.ReadFile(resPath); err == nil {
		var r Result
		if json.Unmarshal(rb, &r) == nil && r.Done {
			out.res = &r
		}
	}
	code := 0
	if cmd.ProcessState != nil {
		code = cmd.ProcessState.ExitCode()
	}
	if code == 3 {
		out.internal = true
	}
	if out.res == nil && !out.internal {
		out.died = true
	}
	if out.died || out.internal || timedOut {
		out.logTail = head(logPath, 3000)
		if t := tail(logPath, 1500); len(out.logTail) >= 3000 {
			out.logTail += "\n…\n" + t
		}
	}
	return out
}

type knownFinding struct {
	prop string
	rest string
	line string
}

func loadKnown(root string) []knownFinding {
	f, err := os.Open(filepath.Join(root, "KNOWN_FINDINGS.txt"))
	if err != nil {
		return nil
	}
	defer f.Close()
	var out []knownFinding
	sc := bufio.NewScanner(f)
	for sc.Scan() {
		l := strings.TrimSpace(sc.Text())
		if !strings.HasPrefix(l, "open:") {
			continue
		}
		rest := strings.TrimSpace(strings.TrimPrefix(l, "open:"))
		if !strings.HasPrefix(rest, "property=") {
			continue
		}
		sp := strings.SplitN(rest, " ", 2)
		kf := knownFinding{prop: strings.TrimPrefix(sp[0], "property="), line: l}
		if len(sp) > 1 {
			kf.rest = sp[1]
		}
		out = append(out, kf)
	}
	return out
}

// Supervise runs all batches of a property and returns the process exit code.
func Supervise(o SuperOpts) int {
	t0 := time.Now()
	p := Get(o.Prop)
	if p == nil {
		fmt.Printf("unknown property %s\n", o.Prop)
		return 2
	}
	outDir := filepath.Join(o.Root, "out", o.Prop)
	os.RemoveAll(outDir)
	os.MkdirAll(outDir, 0o755)
	batches := p.Plan(o.Tier, o.Seed)
	for _, b := range batches {
		if b.Race && o.RaceExe == "" {
			fmt.Printf("INFRA: batch %s needs the -race binary\n", b.Name)
			return 2
		}
	}
	agg := NewAgg(p, o.Tier, o.Seed)
	agg.Batches = len(batches)
	ncpu := runtime.NumCPU()
	sem := make(chan struct{}, ncpu)
	var wg sync.WaitGroup
	var mu, acq sync.Mutex
	infra := []string{}
	raceReports := 0
	for i, b := range batches {
		wg.Add(1)
		w := 1
		if b.Race && len(b.Env) > 0 {
			w = 4
		}
		go func(i int, b Batch, w int) {
			defer wg.Done()
			// all tokens of a weighted batch are taken by one goroutine at a time: two batches
			// that each hold a part of their tokens would wait for each other for ever
			acq.Lock()
			for k := 0; k < w; k++ {
				sem <- struct{}{}
			}
			acq.Unlock()
			defer func() {
				for k := 0; k < w; k++ {
					<-sem
				}
			}()
			oc := runChild(o, p, b, outDir, i, false, 1)
			mu.Lock()
			defer mu.Unlock()
			if oc.internal {
				infra = append(infra, fmt.Sprintf("batch %s: harness internal error: %s", b.Name, oc.logTail))
				return
			}
			if oc.res != nil {
				agg.Merge(oc.res)
				return
			}
			if b.Slow && oc.timedOut {
				agg.Inconclusive++
				agg.InconcNotes = append(agg.InconcNotes, fmt.Sprintf("batch %s (slow by design: multi-GiB buffers) did not finish within its watchdog on this machine; no verdict is derived from its timing", b.Name))
				return
			}
			// The child died or hung: re-run in trace mode to pin the case.
			agg.Died++
			mu.Unlock()
			oc2 := runChild(o, p, b, outDir, i, true, 3)
			mu.Lock()
			if oc2.internal {
				infra = append(infra, fmt.Sprintf("batch %s (trace rerun): harness internal error: %s", b.Name, oc2.logTail))
				return
			}
			if oc2.res != nil {
				agg.Merge(oc2.res)
				agg.Inconclusive++
				agg.InconcNotes = append(agg.InconcNotes, fmt.Sprintf("batch %s died once (%s, timeout=%v) but completed when re-run in trace mode; first log: %s", b.Name, oc.exit, oc.timedOut, firstLines(oc.logTail, 6)))
				return
			}
			casePath := filepath.Join(outDir, fmt.Sprintf("b%03d-trace.case", i))
			cb, err := os.ReadFile(casePath)
			if err != nil || len(cb) == 0 {
				if len(b.Strace) > 0 {
					// strace (ptrace) may be unavailable where the check runs: the batch is inconclusive, not broken
					agg.Inconclusive++
					agg.InconcNotes = append(agg.InconcNotes, fmt.Sprintf("batch %s could not run under strace (fault injection unavailable?): %s", b.Name, firstLines(oc2.logTail, 4)))
					return
				}
				infra = append(infra, fmt.Sprintf("batch %s died twice before any case was traced: %s", b.Name, oc2.logTail))
				return
			}
			var tc struct {
				N       int64           `json:"n"`
				Key     string          `json:"key"`
				Payload json.RawMessage `json:"payload"`
			}
			if json.Unmarshal(cb, &tc) != nil {
				infra = append(infra, fmt.Sprintf("batch %s: unreadable trace case", b.Name))
				return
			}
			if oc2.timedOut && b.Slow {
				agg.Inconclusive++
				agg.InconcNotes = append(agg.InconcNotes, fmt.Sprintf("batch %s (slow by design) did not finish its traced re-run within the watchdog; no hang verdict is derived from its timing", b.Name))
				return
			}
			if oc2.timedOut {
				st, _ := os.Stat(casePath)
				if st != nil && time.Since(st.ModTime()) < hangS*time.Second {
					agg.Inconclusive++
					agg.InconcNotes = append(agg.InconcNotes, fmt.Sprintf("batch %s exceeded its watchdog twice without a single call hanging (last case younger than 180 s)", b.Name))
					return
				}
				agg.NViol++
				agg.Violations = append(agg.Violations, Violation{Prop: o.Prop, Kind: "hang", Key: tc.Key, Batch: b.Name,
					Msg: "a single call did not return within 180 s (watchdog of the traced re-run)\n" + oc2.logTail, Payload: tc.Payload})
				return
			}
			if b.Slow && (strings.Contains(oc2.exit, "killed") || strings.Contains(oc2.logTail, "out of memory") || strings.Contains(oc2.logTail, "cannot allocate memory")) {
				agg.Inconclusive++
				agg.InconcNotes = append(agg.InconcNotes, fmt.Sprintf("batch %s (multi-GiB buffers by design) was killed for lack of memory on this machine (%s); not a verdict", b.Name, oc2.exit))
				return
			}
			agg.NViol++
			agg.Violations = append(agg.Violations, Violation{Prop: o.Prop, Kind: "crash", Key: tc.Key, Batch: b.Name,
				Msg: "child process died (fatal error / signal) while executing this case: " + oc2.exit + "\n" + oc2.logTail, Payload: tc.Payload})
		}(i, b, w)
	}
	wg.Wait()

	// Race detector logs (GORACE log_path): counted here, judged by the property's Finish.
	if matches, _ := filepath.Glob(filepath.Join(outDir, "*.race.*")); len(matches) > 0 {
		reports := parseRaceLogs(matches)
		raceReports = len(reports)
		agg.Counters["race_reports_raw"] = int64(raceReports)
		seen := map[string]bool{}
		for _, r := range reports {
			if seen[r.dedup] {
				continue
			}
			seen[r.dedup] = true
			agg.NViol++
			pl, _ := json.Marshal(map[string]string{"report": r.text})
			agg.Violations = append(agg.Violations, Violation{Prop: o.Prop, Kind: "data-race", Key: "race=" + r.dedup, Msg: r.text, Payload: pl, Batch: r.file})
		}
		agg.Counters["race_reports_distinct"] = int64(len(seen))
	}

	var finishErr error
	if p.Finish != nil && len(infra) == 0 {
		finishErr = p.Finish(agg)
	}

	// Known findings.
	known := loadKnown(o.Root)
	var open []knownFinding
	for _, k := range known {
		if k.prop == o.Prop {
			open = append(open, k)
		}
	}
	var fresh []Violation
	matched := map[string]bool{}
	for _, v := range agg.Violations {
		isKnown := false
		for _, k := range open {
			if v.Key != "" && strings.HasPrefix(k.rest, v.Key) {
				isKnown = true
				matched[k.line] = true
			}
		}
		if !isKnown {
			fresh = append(fresh, v)
		}
	}
	for _, k := range open {
		fmt.Printf("KNOWN-FINDING: property=%s %s\n", o.Prop, k.rest)
	}

	// Replays.
	repDir := filepath.Join(o.Root, "replays", o.Prop)
	seenRep := map[string]bool{}
	nprinted := 0
	sort.SliceStable(fresh, func(i, j int) bool { return len(fresh[i].Payload) < len(fresh[j].Payload) })
	for _, v := range fresh {
		if nprinted >= 10 {
			break
		}
		vb, _ := json.MarshalIndent(v, "", " ")
		h := sha256.Sum256([]byte(v.Kind + v.Key + string(v.Payload)))
		name := hex.EncodeToString(h[:8]) + ".json"
		if seenRep[name] {
			continue
		}
		seenRep[name] = true
		os.MkdirAll(repDir, 0o755)
		path := filepath.Join(repDir, name)
		os.WriteFile(path, vb, 0o644)
		msg := v.Msg
		if len(msg) > 600 {
			msg = msg[:600] + "…"
		}
		// printed lines are valid UTF-8 (a cut may fall inside a multi-byte character)
		msg = strings.ToValidUTF8(msg, "?")
		fmt.Printf("violation kind=%s batch=%s %s\n  %s\n", v.Kind, v.Batch, strings.ToValidUTF8(v.Key, "?"), strings.ReplaceAll(msg, "\n", "\n  "))
		fmt.Printf("VIOLATION property=%s replay=%s\n", o.Prop, path)
		nprinted++
	}

	wall := time.Since(t0).Seconds()
	if err := writeEvidence(o, p, agg, len(fresh), wall, finishErr, infra); err != nil {
		fmt.Println("INFRA: cannot write evidence:", err)
		return 2
	}
	for _, n := range agg.InconcNotes {
		fmt.Println("INCONCLUSIVE:", strings.ToValidUTF8(n, "?"))
	}
	fmt.Printf("%s %s seed=%d: evaluations=%d distinct_nontrivial=%d violations=%d (known %d) inconclusive=%d batches=%d died=%d wall=%.1fs\n",
		o.Prop, o.Tier, o.Seed, agg.Evals, agg.DistinctNontrivial(), len(fresh), len(agg.Violations)-len(fresh), agg.Inconclusive, agg.Batches, agg.Died, wall)
	keys := make([]string, 0, len(agg.Counters))
	for k := range agg.Counters {
		keys = append(keys, k)
	}
	sort.Strings(keys)
	for _, k := range keys {
		fmt.Printf("  %-40s %d\n", k, agg.Counters[k])
	}
	if len(fresh) > 0 {
		return 1
	}
	if len(infra) > 0 {
		for _, s := range infra {
			fmt.Println("INFRA:", strings.ToValidUTF8(s, "?"))
		}
		return 2
	}
	if finishErr != nil {
		fmt.Println("INFRA: monitors did not observe what they must:", finishErr)
		return 2
	}
	return 0
}

func firstLines(s string, n int) string {
	l := strings.Split(s, "\n")
	if len(l) > n {
		l = l[:n]
	}
	return strings.Join(l, " | ")
}

func writeEvidence(o SuperOpts, p *Prop, a *Agg, nviol int, wall float64, finishErr error, infra []string) error {
	cov := map[string]any{
		"evaluations":          a.Evals,
		"distinct_nontrivial":  a.DistinctNontrivial(),
		"rule":                 p.Rule,
		"batches":              a.Batches,
		"child_processes_died": a.Died,
		"inconclusive":         a.Inconclusive,
	}
	samples := []any{}
	for _, s := range a.Samples {
		var v any
		if json.Unmarshal(s, &v) == nil {
			samples = append(samples, v)
		}
	}
	if len(samples) == 0 {
		samples = append(samples, "no sample recorded")
	}
	cov["samples"] = samples
	if p.Exhaustive != nil && p.Exhaustive(o.Tier) {
		cov["exhaustive"] = true
	}
	for k, v := range a.Counters {
		cov["n_"+k] = v
	}
	for k, v := range a.Maxes {
		cov["max_"+k] = v
	}
	for name, m := range a.Sets {
		cov["set_"+name+"_size"] = len(m)
		if len(m) <= 60 {
			var l []string
			for k := range m {
				l = append(l, k)
			}
			sort.Strings(l)
			cov["set_"+name] = l
		}
	}
	if len(a.InconcNotes) > 0 {
		cov["inconclusive_notes"] = a.InconcNotes
	}
	if finishErr != nil {
		cov["monitor_error"] = finishErr.Error()
	}
	if len(infra) > 0 {
		cov["infrastructure_errors"] = infra
	}
	ev := map[string]any{
		"property_id": p.ID,
		"tier":        o.Tier,
		"seed":        o.Seed,
		"level":       p.Level,
		"coverage":    cov,
		"assumptions": p.Assumptions,
		"wall_s":      wall,
		"violations":  nviol,
	}
	b, err := json.MarshalIndent(ev, "", " ")
	if err != nil {
		return err
	}
	dir := filepath.Join(o.Root, "evidence")
	os.MkdirAll(dir, 0o755)
	return os.WriteFile(filepath.Join(dir, p.ID+".json"), append(b, '\n'), 0o644)
}

type raceReport struct {
	text  string
	dedup string
	file  string
}

// parseRaceLogs splits GORACE log files into reports and computes a
// deduplication key from the two stacks with line numbers stripped.
func parseRaceLogs(files []string) []raceReport {
	var out []raceReport
	for _, f := range files {
		b, err := os.ReadFile(f)
		if err != nil {
			continue
		}
		parts := strings.Split(string(b), "==================")
		for _, part := range parts {
			if !strings.Contains(part, "WARNING: DATA RACE") {
				continue
			}
			var fn []string
			for _, l := range strings.Split(part, "\n") {
				l = strings.TrimSpace(l)
				if l == "" || strings.HasPrefix(l, "/") || strings.HasPrefix(l, "Goroutine") {
					if strings.HasPrefix(l, "Goroutine") {
						break // creation stacks are not part of the identity
					}
					continue
				}
				if strings.HasSuffix(l, ")") && strings.Contains(l, "(") && !strings.Contains(l, " ") {
					fn = append(fn, l[:strings.Index(l, "(")])
				} else if strings.HasPrefix(l, "Read at") || strings.HasPrefix(l, "Write at") || strings.HasPrefix(l, "Previous") {
					w := strings.Fields(l)
					fn = append(fn, strings.Join(w[:2], "_"))
				}
			}
			txt := strings.TrimSpace(part)
			if len(txt) > 4000 {
				txt = txt[:4000]
			}
			h := sha256.Sum256([]byte(strings.Join(fn, ";")))
			out = append(out, raceReport{text: txt, dedup: hex.EncodeToString(h[:6]), file: filepath.Base(f)})
		}
	}
	return out
}
