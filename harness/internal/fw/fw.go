// Package fw is the small framework shared by all property checks: property
// registry, per-batch child context with counters, violation records, and the
// child-side result file.
package fw

import (
	"crypto/sha256"
	"encoding/hex"
	"encoding/json"
	"fmt"
	"hash/fnv"
	"math/rand"
	"os"
	"runtime/debug"
	"sort"
	"sync"
)

// Batch is one unit of work executed in its own child process.
type Batch struct {
	Name string // free text, shows up in logs
	Kind string // property specific selector
	N    int    // property specific size parameter
	Idx  int    // index among the batches of the same Kind
	Of   int    // number of batches of the same Kind
	Race bool   // run with the -race binary
	// TimeoutS is the watchdog for the child (generous; firing = inconclusive
	// unless a single call is shown to hang).
	TimeoutS int
	// Env holds extra environment variables for the child (e.g. GOMAXPROCS).
	Env []string
	// Strace wraps the child in strace with these arguments (C05 thorough).
	Strace []string
	// Slow marks a batch whose single cases are legitimately slow on some machines (4 GiB
	// buffers): no stall / hang verdict is derived from its timing; running out of its
	// watchdog is inconclusive. Panics and crashes are still pinned and reported.
	Slow bool
}

// Prop describes one property check.
type Prop struct {
	ID          string
	Level       string // exploration | fault_enumeration
	Rule        string
	Assumptions []string
	// Plan returns the batches for a tier.
	Plan func(tier string, seed int64) []Batch
	// Run executes one batch.
	Run func(c *Ctx, b Batch)
	// Replay re-executes one recorded case (payload of a Violation) and must
	// report the violation again through c.Violate if it still occurs.
	Replay func(c *Ctx, payload json.RawMessage)
	// Finish can inspect the merged result; a non-nil error means the monitors
	// did not observe what they must (broken check, exit 2).
	Finish func(a *Agg) error
	// CrashIsViolation: a fatal child death pinned on a case is a violation of
	// this property (true for every property: a crashed detection reports
	// nothing), kept as a field for documentation.
	Exhaustive func(tier string) bool
}

var registry = map[string]*Prop{}

func Register(p *Prop)    { registry[p.ID] = p }
func Get(id string) *Prop { return registry[id] }
func IDs() []string {
	var s []string
	for k := range registry {
		s = append(s, k)
	}
	sort.Strings(s)
	return s
}

// Violation is one refuting observation.
type Violation struct {
	Prop    string          `json:"property"`
	Kind    string          `json:"kind"`
	Msg     string          `json:"msg"`
	Key     string          `json:"key"` // identity used by KNOWN_FINDINGS (input-sha256/limit/entry or history id)
	Batch   string          `json:"batch"`
	Payload json.RawMessage `json:"payload"`
}

// Result is what a child writes.
type Result struct {
	Prop         string              `json:"prop"`
	Batch        string              `json:"batch"`
	Evals        int64               `json:"evals"`
	Distinct     []uint64            `json:"distinct"`
	Disjoint     int64               `json:"disjoint"`
	Counters     map[string]int64    `json:"counters"`
	Maxes        map[string]int64    `json:"maxes"`
	Sets         map[string][]string `json:"sets"`
	Samples      []json.RawMessage   `json:"samples"`
	Violations   []Violation         `json:"violations"`
	NViol        int64               `json:"nviol"`
	Inconclusive int64               `json:"inconclusive"`
	InconcNotes  []string            `json:"inconc_notes"`
	Done         bool                `json:"done"`
}

// Ctx is the per-batch context handed to Prop.Run in the child.
type Ctx struct {
	Prop   string
	Tier   string
	Seed   int64
	Rand   *rand.Rand
	Replay bool

	mu        sync.Mutex
	batchName string
	evals     int64
	progress  int64
	distinct  map[uint64]struct{}
	disjoint  int64
	counters  map[string]int64
	maxes     map[string]int64
	sets      map[string]map[string]struct{}
	samples   []json.RawMessage
	sampleCap int
	viols     []Violation
	nviol     int64
	inconc    int64
	inconcN   []string
	trace     *os.File
	traceN    int64
}

func NewCtx(prop, tier string, seed int64, b Batch, tracePath string) *Ctx {
	h := fnv.New64a()
	fmt.Fprintf(h, "%d|%s|%s|%s|%d", seed, prop, tier, b.Kind, b.Idx)
	c := &Ctx{
		Prop: prop, Tier: tier, Seed: seed,
		Rand:      rand.New(rand.NewSource(int64(h.Sum64() >> 1))),
		batchName: b.Name,
		distinct:  map[uint64]struct{}{},
		counters:  map[string]int64{},
		maxes:     map[string]int64{},
		sets:      map[string]map[string]struct{}{},
		sampleCap: 6,
	}
	if tracePath != "" {
		f, err := os.OpenFile(tracePath, os.O_CREATE|os.O_WRONLY|os.O_TRUNC, 0o644)
		if err == nil {
			c.trace = f
		}
	}
	return c
}

// Tracing reports whether the child runs in trace mode (case written to disk
// before each risky call).
func (c *Ctx) Tracing() bool { return c.trace != nil }

// Trace records the case about to be executed (trace mode only). The payload
// is built lazily.
func (c *Ctx) Trace(mk func() (key string, payload any)) {
	if c.trace == nil {
		return
	}
	key, p := mk()
	b, _ := json.Marshal(struct {
		N       int64  `json:"n"`
		Key     string `json:"key"`
		Payload any    `json:"payload"`
	}{c.traceN, key, p})
	c.traceN++
	c.trace.Truncate(0)
	c.trace.WriteAt(b, 0)
}

func (c *Ctx) Eval(n int64) {
	c.mu.Lock()
	c.evals += n
	c.progress++
	c.mu.Unlock()
}

// Tick marks progress without counting an evaluation.
func (c *Ctx) Tick() {
	c.mu.Lock()
	c.progress++
	c.mu.Unlock()
}

// Progress is a counter that changes whenever a case finished.
func (c *Ctx) Progress() int64 {
	c.mu.Lock()
	defer c.mu.Unlock()
	return c.progress
}

func hash64(s string) uint64 {
	h := fnv.New64a()
	h.Write([]byte(s))
	return h.Sum64()
}

// Distinct records a non-trivial case class key; the union over all children is
// the evidence's distinct_nontrivial.
func (c *Ctx) Distinct(key string) {
	k := hash64(key)
	c.mu.Lock()
	c.distinct[k] = struct{}{}
	c.mu.Unlock()
}

// DistinctN reports the number of distinct keys so far in this child.
func (c *Ctx) DistinctN() int {
	c.mu.Lock()
	defer c.mu.Unlock()
	return len(c.distinct)
}

// Disjoint adds n cases that are distinct and non-trivial by construction
// (enumerated without repetition, partitioned across batches).
func (c *Ctx) Disjoint(n int64) {
	c.mu.Lock()
	c.disjoint += n
	c.mu.Unlock()
}

func (c *Ctx) Count(name string, n int64) {
	c.mu.Lock()
	c.counters[name] += n
	c.mu.Unlock()
}

func (c *Ctx) Max(name string, v int64) {
	c.mu.Lock()
	if v > c.maxes[name] {
		c.maxes[name] = v
	}
	c.mu.Unlock()
}

// SetAdd adds a member to a named set (union across children; size reported).
func (c *Ctx) SetAdd(set, member string) {
	c.mu.Lock()
	m := c.sets[set]
	if m == nil {
		m = map[string]struct{}{}
		c.sets[set] = m
	}
	m[member] = struct{}{}
	c.mu.Unlock()
}

// Sample keeps a few actual cases for the evidence file.
func (c *Ctx) Sample(v any) {
	c.mu.Lock()
	defer c.mu.Unlock()
	if len(c.samples) >= c.sampleCap {
		return
	}
	b, err := json.Marshal(v)
	if err == nil {
		c.samples = append(c.samples, b)
	}
}

func (c *Ctx) WantSample() bool {
	c.mu.Lock()
	defer c.mu.Unlock()
	return len(c.samples) < c.sampleCap
}

// Violate records a violation. key identifies the failing case for
// KNOWN_FINDINGS matching; payload must be enough for Prop.Replay.
func (c *Ctx) Violate(kind, key, msg string, payload any) {
	b, _ := json.Marshal(payload)
	c.mu.Lock()
	defer c.mu.Unlock()
	c.nviol++
	if len(c.viols) < 25 {
		c.viols = append(c.viols, Violation{Prop: c.Prop, Kind: kind, Msg: msg, Key: key, Batch: c.batchName, Payload: b})
	}
	if c.Replay {
		fmt.Printf("REPLAY-VIOLATION property=%s kind=%s key=%s %s\n", c.Prop, kind, key, msg)
	}
}

func (c *Ctx) NViol() int64 {
	c.mu.Lock()
	defer c.mu.Unlock()
	return c.nviol
}

func (c *Ctx) Inconclusive(note string) {
	c.mu.Lock()
	c.inconc++
	if len(c.inconcN) < 10 {
		c.inconcN = append(c.inconcN, note)
	}
	c.mu.Unlock()
}

// Guard runs f and converts a panic into a violation of kind "panic".
// It returns false when f panicked.
func (c *Ctx) Guard(key string, payload func() any, f func()) (ok bool) {
	defer func() {
		if e := recover(); e != nil {
			ok = false
			st := debug.Stack()
			if len(st) > 3000 {
				st = st[:3000]
			}
			c.Violate("panic", key, fmt.Sprintf("panic: %v\n%s", e, st), payload())
		}
	}()
	f()
	return true
}

func (c *Ctx) Result(done bool) *Result {
	c.mu.Lock()
	defer c.mu.Unlock()
	r := &Result{
		Prop: c.Prop, Batch: c.batchName, Evals: c.evals, Disjoint: c.disjoint,
		Counters: c.counters, Maxes: c.maxes, Sets: map[string][]string{},
		Samples: c.samples, Violations: c.viols, NViol: c.nviol,
		Inconclusive: c.inconc, InconcNotes: c.inconcN, Done: done,
	}
	for k := range c.distinct {
		r.Distinct = append(r.Distinct, k)
	}
	for name, m := range c.sets {
		var l []string
		for k := range m {
			l = append(l, k)
		}
		sort.Strings(l)
		r.Sets[name] = l
	}
	return r
}

func (c *Ctx) WriteResult(path string, done bool) error {
	b, err := json.Marshal(c.Result(done))
	if err != nil {
		return err
	}
	tmp := path + ".tmp"
	if err := os.WriteFile(tmp, b, 0o644); err != nil {
		return err
	}
	return os.Rename(tmp, path)
}

// InputKey is the identity of an input-shaped case.
func InputKey(in []byte, limit uint32, entry string) string {
	s := sha256.Sum256(in)
	return fmt.Sprintf("input-sha256=%s limit=%d entry=%s", hex.EncodeToString(s[:]), limit, entry)
}

// InCase is the replay payload of input-shaped cases.
type InCase struct {
	Kind  string `json:"kind"`
	In    []byte `json:"in"` // base64 in JSON
	Limit uint32 `json:"limit"`
	Entry string `json:"entry"`
	Note  string `json:"note,omitempty"`
	Aux   string `json:"aux,omitempty"`
	InQ   string `json:"in_quoted,omitempty"` // human readable, truncated
}

func Quote(b []byte, max int) string {
	if len(b) > max {
		return fmt.Sprintf("%q…(+%d bytes)", b[:max], len(b)-max)
	}
	return fmt.Sprintf("%q", b)
}

func MkInCase(kind string, in []byte, limit uint32, entry, note string) InCase {
	return InCase{Kind: kind, In: append([]byte(nil), in...), Limit: limit, Entry: entry, Note: note, InQ: Quote(in, 120)}
}

// Agg is the merged result of all children.
type Agg struct {
	Prop         *Prop
	Tier         string
	Seed         int64
	Evals        int64
	Distinct     map[uint64]struct{}
	Disjoint     int64
	Counters     map[string]int64
	Maxes        map[string]int64
	Sets         map[string]map[string]struct{}
	Samples      []json.RawMessage
	Violations   []Violation
	NViol        int64
	Inconclusive int64
	InconcNotes  []string
	Batches      int
	Died         int
}

func NewAgg(p *Prop, tier string, seed int64) *Agg {
	return &Agg{Prop: p, Tier: tier, Seed: seed, Distinct: map[uint64]struct{}{},
		Counters: map[string]int64{}, Maxes: map[string]int64{}, Sets: map[string]map[string]struct{}{}}
}

func (a *Agg) Merge(r *Result) {
	a.Evals += r.Evals
	for _, k := range r.Distinct {
		a.Distinct[k] = struct{}{}
	}
	a.Disjoint += r.Disjoint
	for k, v := range r.Counters {
		a.Counters[k] += v
	}
	for k, v := range r.Maxes {
		if v > a.Maxes[k] {
			a.Maxes[k] = v
		}
	}
	for name, l := range r.Sets {
		m := a.Sets[name]
		if m == nil {
			m = map[string]struct{}{}
			a.Sets[name] = m
		}
		for _, k := range l {
			m[k] = struct{}{}
		}
	}
	for _, s := range r.Samples {
		if len(a.Samples) < 12 {
			a.Samples = append(a.Samples, s)
		}
	}
	a.Violations = append(a.Violations, r.Violations...)
	a.NViol += r.NViol
	a.Inconclusive += r.Inconclusive
	a.InconcNotes = append(a.InconcNotes, r.InconcNotes...)
}

func (a *Agg) DistinctNontrivial() int64 { return int64(len(a.Distinct)) + a.Disjoint }

func (a *Agg) SetSize(name string) int { return len(a.Sets[name]) }
