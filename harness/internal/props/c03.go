package props

import (
	"bytes"
	stdjson "encoding/json"
	"fmt"
	"io"
	"os"
	"path/filepath"
	"runtime"
	"strings"
	"sync/atomic"
	"unsafe"

	"github.com/gabriel-vasile/mimetype"

	"verifharness/internal/fw"
	"verifharness/internal/lib"
)

// C03 — the reported hierarchy is the first-match deepest path of the tree.
//
// Two monitors per detection:
// (1) online trace specification over the detector calls recorded through the
//     VerifInstrument hook (which detector was consulted, with which
//     (ptr,len,limit), what it answered): first-match, depth-first, no skip, no
//     backtracking, no reordering, same header and limit passed to every
//     detector, result chain = path of the detectors that answered true;
// (2) the independent iterative walk model over the un-instrumented detectors:
//     model path == reported chain.

type c03Ev struct {
	id    int
	ans   bool
	ptr   uintptr
	n     int
	limit uint32
}

type c03Payload struct {
	Ops    []extOp `json:"ext_history"`
	In     []byte  `json:"in"`
	Limit  uint32  `json:"limit"`
	Global uint32  `json:"global_limit"`
	Entry  string  `json:"entry"` // Detect | VerifMatch
	InQ    string  `json:"in_quoted"`
}

type c03State struct {
	ops     []extOp
	t       *lib.Tree
	trace   []c03Ev
	restore func()
	yield   bool // instrumented detectors yield the processor (widens windows for concurrent writers)
}

func c03Setup(ops []extOp) *c03State {
	mimetype.VerifResetTree()
	base := baseTree()
	scratch := lib.Snapshot()
	for _, op := range ops {
		func() {
			defer func() {
				if e := recover(); e != nil {
					if _, ok := e.(lostName); !ok {
						panic(e)
					}
					// a lost name is C14's finding; C03 goes on with the tree as it is
				}
			}()
			applyOp(op, scratch, base)
		}()
	}
	st := &c03State{ops: ops}
	st.t = lib.Snapshot() // ids in DFS pre-order, original (un-instrumented) detectors
	st.restore = mimetype.VerifInstrument(func(id int, d func([]byte, uint32) bool) func([]byte, uint32) bool {
		return func(raw []byte, l uint32) bool {
			if st.yield {
				runtime.Gosched()
			}
			a := d(raw, l)
			var p uintptr
			if len(raw) > 0 {
				p = uintptr(unsafe.Pointer(&raw[0]))
			}
			st.trace = append(st.trace, c03Ev{id, a, p, len(raw), l})
			return a
		}
	})
	return st
}

func (st *c03State) nextSibling(id int) int {
	p := st.t.Nodes[id].Parent
	ch := st.t.Nodes[p].Children
	for i, c := range ch {
		if c == id && i+1 < len(ch) {
			return ch[i+1]
		}
	}
	return -1
}

func (st *c03State) judge(c *fw.Ctx, in []byte, limit, global uint32, entry string, kind string) {
	pl := func(note string) any {
		return c03Payload{Ops: st.ops, In: append([]byte(nil), in...), Limit: limit, Global: global, Entry: entry, InQ: fw.Quote(in, 100)}
	}
	key := fw.InputKey(in, limit, fmt.Sprintf("%s/global=%d/exts=%d", entry, global, len(st.ops)))
	c.Trace(func() (string, any) { return key, pl("") })
	st.trace = st.trace[:0]
	var m *mimetype.MIME
	hdr := in
	ok := c.Guard(key, func() any { return pl("panic") }, func() {
		if entry == "VerifMatch" {
			mimetype.SetLimit(global)
			m = mimetype.VerifMatch(in, limit)
		} else if entry == "DetectReader" {
			mimetype.SetLimit(limit)
			m, _ = mimetype.DetectReader(&oddChunks{b: in})
			hdr = lib.Header(in, limit)
		} else if entry == "DetectFilePaused" {
			// a named pipe whose writer delivers the first half, pauses, delivers the rest and closes
			m, _ = detectPipePaused(in, limit, len(in)/2)
			hdr = lib.Header(in, limit)
		} else if entry == "DetectFile" {
			f := filepath.Join(os.TempDir(), fmt.Sprintf("verif-c03-%d.bin", os.Getpid()))
			if err := os.WriteFile(f, in, 0o600); err != nil {
				panic("verif harness: " + err.Error())
			}
			mimetype.SetLimit(limit)
			m, _ = mimetype.DetectFile(f)
			os.Remove(f)
			hdr = lib.Header(in, limit)
		} else {
			mimetype.SetLimit(limit)
			m = mimetype.Detect(in)
			hdr = lib.Header(in, limit)
		}
	})
	c.Eval(1)
	if !ok {
		return
	}
	ch := lib.ChainOf(m)
	t := st.t
	bad := func(kindV, msg string) {
		var tr []string
		for i, e := range st.trace {
			if i > 14 {
				tr = append(tr, "…")
				break
			}
			tr = append(tr, fmt.Sprintf("%s%s=%v", t.Nodes[e.id].MIME, t.Nodes[e.id].Ext, e.ans))
		}
		c.Violate(kindV, key, fmt.Sprintf("%s; result %s; detector trace [%s]; input %s limit %d entry %s", msg, ch, strings.Join(tr, " "), fw.Quote(in, 80), limit, entry), pl(msg))
	}
	// (1) trace specification
	expect := -1
	if len(t.Nodes[0].Children) > 0 {
		expect = t.Nodes[0].Children[0]
	}
	cur := 0
	var wantPtr uintptr
	if len(hdr) > 0 {
		wantPtr = uintptr(unsafe.Pointer(&hdr[0]))
	}
	sig := make([]byte, 0, len(st.trace)*2)
	for i, e := range st.trace {
		if e.id != expect {
			exp := "nothing (walk should have ended)"
			if expect >= 0 {
				exp = t.Nodes[expect].MIME + t.Nodes[expect].Ext
			}
			bad("trace-order", fmt.Sprintf("detector call #%d consulted %s%s but the first-match depth-first walk expects %s", i, t.Nodes[e.id].MIME, t.Nodes[e.id].Ext, exp))
			return
		}
		if e.n != len(hdr) || e.limit != limit || (len(hdr) > 0 && e.ptr != wantPtr && entry != "DetectReader" && entry != "DetectFile" && entry != "DetectFilePaused") || ((entry == "DetectReader" || entry == "DetectFile" || entry == "DetectFilePaused") && e.ptr != st.trace[0].ptr) {
			bad("trace-args", fmt.Sprintf("detector %s%s was given (len %d, limit %d, same buffer %v) but the walk examines (len %d, limit %d)", t.Nodes[e.id].MIME, t.Nodes[e.id].Ext, e.n, e.limit, e.ptr == wantPtr, len(hdr), limit))
			return
		}
		if e.ans {
			cur = e.id
			if len(t.Nodes[e.id].Children) > 0 {
				expect = t.Nodes[e.id].Children[0]
			} else {
				expect = -1
			}
			sig = append(sig, byte(e.id), byte(e.id>>8)|0x80)
		} else {
			expect = st.nextSibling(e.id)
		}
	}
	if expect != -1 {
		bad("trace-short", fmt.Sprintf("the walk stopped although %s%s had not been consulted", t.Nodes[expect].MIME, t.Nodes[expect].Ext))
		return
	}
	want := t.ChainOfID(cur)
	if ch.Bare() != want.Bare() {
		bad("chain-not-walked-path", fmt.Sprintf("reported chain differs from the path of accepting detectors %s", want))
		return
	}
	// (2) independent model walk on the same header with the original detectors
	path := t.Walk(hdr, limit)
	mwant := t.ChainOfID(path[len(path)-1])
	if ch.Bare() != mwant.Bare() {
		bad("model-mismatch", fmt.Sprintf("independent first-match walk gives %s", mwant))
		return
	}
	// distinct / non-trivial: depth >= 2 or >= 2 siblings accept at some level
	nontrivial := len(path) >= 3
	if !nontrivial {
		for _, pid := range path {
			acc := 0
			for _, cid := range t.Nodes[pid].Children {
				if t.Nodes[cid].Det(hdr, limit) {
					acc++
				}
			}
			if acc >= 2 {
				nontrivial = true
			}
		}
	}
	c.Count("walks_checked", 1)
	c.Count("detector_events_recorded", int64(len(st.trace)))
	for _, pid := range path[1:] {
		c.SetAdd("nodes_on_reported_paths", t.Nodes[pid].MIME+t.Nodes[pid].Ext)
	}
	if nontrivial {
		c.Distinct(fmt.Sprintf("%x|%d|%s", sig, len(st.trace), entry))
	}
	if c.WantSample() && nontrivial && c.Rand.Intn(4000) == 0 {
		c.Sample(map[string]any{"input": fw.Quote(in, 80), "limit": limit, "entry": entry, "extensions_registered": len(st.ops), "detector_calls": len(st.trace), "result": ch.String()})
	}
}

// c03Inputs: seeds, truncations, mutants, multi-match inputs.
func c03Mutate(c *fw.Ctx, corpus [][]byte) []byte {
	r := c.Rand
	s := corpus[r.Intn(len(corpus))]
	x := append([]byte{}, s...)
	if len(x) > 4096 {
		x = x[:4096]
	}
	switch r.Intn(7) {
	case 0:
		if len(x) > 0 {
			x[r.Intn(len(x))] = byte(r.Intn(256))
		}
	case 1:
		x = x[:r.Intn(len(x)+1)]
	case 2:
		o := corpus[r.Intn(len(corpus))]
		if len(o) > 2048 {
			o = o[:2048]
		}
		if len(o) > 0 && len(x) > 0 {
			x = append(x[:r.Intn(len(x))], o[r.Intn(len(o)):]...)
		}
	case 3:
		o := corpus[r.Intn(len(corpus))]
		k := minInt(len(o), 1+r.Intn(16))
		x = append(append([]byte{}, o[:k]...), x...)
	case 4:
		for j := r.Intn(6); j >= 0 && len(x) > 0; j-- {
			x[r.Intn(len(x))] = byte(r.Intn(256))
		}
	case 5:
		x = append([]byte("VERIF"), x...)
	}
	return x
}

// c03BufferReuse: the signature checks must be functions of the header they are given,
// not of its address: groups of equal-length inputs are detected one after the other in
// ONE buffer (same &buf[0], same len) with nothing in between; only afterwards is each
// reported hierarchy compared with the reference walk over a private copy.
func c03BufferReuse(c *fw.Ctx) {
	mimetype.VerifResetTree()
	t := lib.Snapshot()
	buf := make([]byte, 1<<16)
	groups := c19LengthGroups(c.Rand, len(buf))
	// seeds of equal length (after padding to a common length with their own bytes) as well
	seeds := lib.Seeds()
	for _, L := range []int{512, 1024, 3072} {
		var g [][]byte
		for _, s := range seeds {
			if len(s) >= L && len(g) < 40 {
				g = append(g, s[:L])
			}
		}
		groups[-L] = g
	}
	for n, g := range groups {
		if len(g) < 2 {
			continue
		}
		if n < 0 {
			n = -n
		}
		for pass := 0; pass < 2; pass++ {
			got := make([]string, len(g))
			order := make([]int, len(g))
			for i := range g {
				order[i] = i
				if pass == 1 {
					order[i] = len(g) - 1 - i
				}
			}
			mimetype.SetLimit(0)
			for _, j := range order {
				copy(buf, g[j])
				got[j] = lib.ChainOf(mimetype.Detect(buf[:n])).Bare()
			}
			c.Eval(int64(len(g)))
			for _, j := range order {
				priv := append([]byte(nil), g[j]...)
				path := t.Walk(priv, 0)
				want := t.ChainOfID(path[len(path)-1]).Bare()
				if got[j] != want {
					c.Violate("walk-mismatch", fw.InputKey(g[j], 0, "Detect/reused-buffer"), fmt.Sprintf("a %d-byte input detected in a buffer that held other inputs of the same length before is reported as %s; the first-match walk over a private copy of the same bytes gives %s", n, got[j], want), c03Payload{In: g[j], Entry: "buffer-reuse", InQ: fw.Quote(g[j], 60)})
					return
				}
			}
		}
		c.Count("buffer_reuse_groups", 1)
		c.Distinct(fmt.Sprintf("reuse|%d|%d", n, len(g)))
	}
}

// c03HugeLimitReader: the reader path with limits above 16 MiB: every detector must be given
// exactly the first `limit` bytes and that limit.
func c03HugeLimitReader(c *fw.Ctx) {
	st := c03Setup(nil)
	defer st.restore()
	for _, L := range []int{1<<24 + 5, 3<<23 + 4099} {
		x := bytes.Repeat([]byte("sixteen byte ln\n"), (L+(9<<20))/16)
		st.trace = st.trace[:0]
		mimetype.SetLimit(uint32(L))
		key := fw.InputKey(x[:64], uint32(L), "DetectReader/huge-limit")
		pl := c03Payload{In: x[:64], Limit: uint32(L), Entry: "buffer-reuse", InQ: "16-byte text lines"}
		if !c.Guard(key, func() any { return pl }, func() { mimetype.DetectReader(bytes.NewReader(x)) }) {
			continue
		}
		c.Eval(1)
		c.Count("reader_walks_with_limits_above_16_MiB", 1)
		for i, e := range st.trace {
			if e.n != L || e.limit != uint32(L) {
				c.Violate("trace-args", key, fmt.Sprintf("DetectReader with limit %d on a %d-byte input: detector call #%d (%s) was given a %d-byte header and limit %d", L, len(x), i, st.t.Nodes[e.id].MIME, e.n, e.limit), pl)
				break
			}
		}
	}
	mimetype.SetLimit(3072)
}

// c03FaultyDetector: a detector registered with Extend that panics on some inputs. If the
// library lets the panic reach the caller, nothing is asserted. If it returns a result, that
// result must be the first-match walk of the tree in which the faulty detector does not
// accept the input (a walk that simply stops there skips every later sibling).
func c03FaultyDetector(c *fw.Ctx) {
	mimetype.VerifResetTree()
	defer mimetype.VerifResetTree()
	ref := lib.Snapshot()                                                                                                              // the tree without the faulty format
	mimetype.Extend(func(raw []byte, _ uint32) bool { return raw[2] == 0xFA && raw[3] == 0x17 }, "application/x-verif-faulty", ".vfy") // panics below 4 bytes
	if lk := mimetype.Lookup("text/plain"); lk != nil {
		lk.Extend(func(raw []byte, _ uint32) bool { return raw[len(raw)-5] == 'Z' }, "text/x-verif-faulty", ".vft") // panics below 5 bytes
	}
	for _, x := range [][]byte{{}, []byte("PK"), []byte("a"), []byte("ab"), []byte("abc"), []byte("{}"), []byte("<a>"), []byte("a,b"), []byte("\x89PN"), []byte("%PD"), []byte("GIF")} {
		for _, entry := range []string{"Detect", "DetectReader"} {
			var ch lib.Chain
			returned := false
			func() {
				defer func() { recover() }()
				m, _ := detect(x, 3072, entry)
				ch, returned = lib.ChainOf(m), true
			}()
			c.Eval(1)
			c.Count("detections_with_a_faulty_extension", 1)
			if !returned {
				c.Count("panics_passed_on_to_the_caller", 1)
				continue
			}
			path := ref.Walk(x, 3072)
			want := ref.ChainOfID(path[len(path)-1])
			if ch.Bare() != want.Bare() {
				c.Violate("walk-mismatch", fw.InputKey(x, 3072, entry+"/faulty-extension"), fmt.Sprintf("a detector registered with Extend panics on this input; the library returned %s instead of passing the panic on; the first-match walk without that detector gives %s", ch, want), c03Payload{In: x, Entry: "buffer-reuse", InQ: fw.Quote(x, 40)})
			}
		}
	}
}

// c03LimitSetter hands out its bytes and calls SetLimit while doing so.
type c03LimitSetter struct {
	b   []byte
	pos int
	to  uint32
}

func (l *c03LimitSetter) Read(p []byte) (int, error) {
	if l.pos >= len(l.b) {
		mimetype.SetLimit(l.to)
		return 0, io.EOF
	}
	n := copy(p, l.b[l.pos:])
	l.pos += n
	mimetype.SetLimit(l.to)
	return n, nil
}

// c03ConcurrentLimit: one goroutine detects (detector calls recorded), another
// keeps changing the limit. Every detector of one walk must be given the same
// (header, limit), and the header must be the first `limit` bytes for THAT limit.
func c03ConcurrentLimit(c *fw.Ctx, rounds int) {
	st := c03Setup(nil)
	defer st.restore()
	seeds := lib.Seeds()
	var ins [][]byte
	for _, s := range seeds {
		if len(s) > 200 {
			ins = append(ins, s)
		}
	}
	ins = append(ins, bytes.Repeat([]byte("a,b,c\n"), 800), []byte("["+strings.Repeat("1,", 3000)+"1]"))
	stop := make(chan struct{})
	done := make(chan struct{})
	go func() {
		defer close(done)
		vals := []uint32{0, 64, 100, 1000, 3072, 4096, 100000}
		for i := 0; ; i++ {
			select {
			case <-stop:
				return
			default:
			}
			mimetype.SetLimit(vals[i%len(vals)])
		}
	}()
	for it := 0; it < rounds; it++ {
		x := ins[c.Rand.Intn(len(ins))]
		st.trace = st.trace[:0]
		key := fw.InputKey(x, 0, "Detect/concurrent-SetLimit")
		pl := c03Payload{In: x, Entry: "concurrent-limit", InQ: fw.Quote(x, 60)}
		var m *mimetype.MIME
		if !c.Guard(key, func() any { return pl }, func() {
			switch it % 4 {
			case 1: // the reader path: one limit for the read AND for the walk
				m, _ = mimetype.DetectReader(&oddChunks{b: x})
			case 2: // deterministic: the reader itself changes the limit between the read and the walk
				m, _ = mimetype.DetectReader(&c03LimitSetter{b: x, to: []uint32{0, 64, 100000, 4096}[(it/4)%4]})
			default:
				m = mimetype.Detect(x)
			}
		}) {
			continue
		}
		_ = m
		c.Eval(1)
		c.Count("walks_under_concurrent_setlimit", 1)
		for i, e := range st.trace {
			want := len(x)
			if e.limit > 0 && int(e.limit) < len(x) {
				want = int(e.limit)
			}
			if e.n != want || e.limit != st.trace[0].limit || e.n != st.trace[0].n {
				c.Violate("trace-args", key, fmt.Sprintf("while another goroutine changes the limit, detector call #%d (%s) was given a %d-byte header with limit %d; the first call of the walk had (%d bytes, limit %d); a %d-byte input examined under limit %d is %d bytes", i, st.t.Nodes[e.id].MIME, e.n, e.limit, st.trace[0].n, st.trace[0].limit, len(x), e.limit, want), pl)
				break
			}
		}
	}
	close(stop)
	<-done
	mimetype.SetLimit(3072)
}

// c03ConcurrentExtend: one goroutine registers extensions (capture formats at the
// root, sub-formats below application/pdf / text/plain / earlier extensions), the
// other detects probes with every detector call recorded. A walk must be the
// first-match walk of ONE tree: some version of the tree between the last
// registration completed before the call and the last one started before its return.
func c03ConcurrentExtend(c *fw.Ctx, rounds int) {
	for round := 0; round < rounds; round++ {
		st := c03Setup(nil)
		st.yield = true
		t := st.t
		baseLen := len(t.Nodes)
		type reg struct {
			parent int // model id
			mime   string
			pre    []byte
		}
		pdfID, textID := t.Find("application/pdf", ".pdf"), t.Find("text/plain", ".txt")
		probes := [][]byte{[]byte("%PDF-VERIF-X 1.7"), []byte("VERIF-X plain text probe")}
		var regs []reg
		K := 10
		for k := 0; k < K; k++ {
			pr := probes[k%2]
			parent := 0
			switch c.Rand.Intn(3) {
			case 0:
				parent = 0
			case 1:
				parent = []int{pdfID, textID}[k%2]
			default:
				for j := len(regs) - 1; j >= 0; j-- { // below an earlier extension that accepts the same probe
					if string(regs[j].pre) == string(pr[:7]) {
						parent = baseLen + j
						break
					}
				}
			}
			regs = append(regs, reg{parent, fmt.Sprintf("application/x-verif-cx-%d-%d", round, k), pr[:7]})
		}
		parentOf := func(id int) int {
			if id < baseLen {
				return t.Nodes[id].Parent
			}
			return regs[id-baseLen].parent
		}
		childrenAt := func(p, v int) []int {
			var ch []int
			for k := v - 1; k >= 0; k-- {
				if regs[k].parent == p {
					ch = append(ch, baseLen+k)
				}
			}
			if p < baseLen {
				ch = append(ch, t.Nodes[p].Children...)
			}
			return ch
		}
		nameOf := func(id int) (string, string) {
			if id < baseLen {
				return t.Nodes[id].MIME, t.Nodes[id].Ext
			}
			return regs[id-baseLen].mime, ".cx"
		}
		var started, done int32
		wdone := make(chan struct{})
		go func() {
			defer close(wdone)
			for k, rg := range regs {
				for i := 0; i < 30; i++ {
					runtime.Gosched()
				}
				id, pre := baseLen+k, rg.pre
				det := func(raw []byte, l uint32) bool {
					runtime.Gosched()
					a := bytes.HasPrefix(raw, pre)
					st.trace = append(st.trace, c03Ev{id: id, ans: a, n: len(raw), limit: l}) // runs on the detecting goroutine
					return a
				}
				atomic.StoreInt32(&started, int32(k+1))
				if rg.parent == 0 {
					mimetype.Extend(det, rg.mime, ".cx")
				} else {
					pm, _ := nameOf(rg.parent)
					mimetype.Lookup(pm).Extend(det, rg.mime, ".cx")
				}
				atomic.StoreInt32(&done, int32(k+1))
			}
		}()
		finished := false
		for it := 0; it < 4000; it++ {
			select {
			case <-wdone:
				if finished {
					it = 4000
				}
				finished = true
			default:
			}
			x := probes[it%2]
			st.trace = st.trace[:0]
			vLo := int(atomic.LoadInt32(&done))
			mimetype.SetLimit(3072)
			m := mimetype.Detect(x)
			vHi := int(atomic.LoadInt32(&started))
			ch := lib.ChainOf(m)
			c.Eval(1)
			c.Count("walks_under_concurrent_extend", 1)
			okAny, why := false, ""
			for v := vLo; v <= vHi && !okAny; v++ {
				expect := -1
				if cs := childrenAt(0, v); len(cs) > 0 {
					expect = cs[0]
				}
				cur, good := 0, true
				for _, e := range st.trace {
					if e.id != expect {
						good, why = false, fmt.Sprintf("version %d: consulted node %d where %d was due", v, e.id, expect)
						break
					}
					if e.ans {
						cur = e.id
						expect = -1
						if cs := childrenAt(e.id, v); len(cs) > 0 {
							expect = cs[0]
						}
					} else {
						sibs := childrenAt(parentOf(e.id), v)
						expect = -1
						for i, sid := range sibs {
							if sid == e.id && i+1 < len(sibs) {
								expect = sibs[i+1]
							}
						}
					}
				}
				if good && expect != -1 {
					good, why = false, fmt.Sprintf("version %d: walk ended although node %d was due", v, expect)
				}
				if good {
					var want lib.Chain
					for p := cur; p >= 0; p = parentOf(p) {
						mm, ee := nameOf(p)
						want = append(want, lib.Link{T: mm, Ext: ee})
						if p == 0 {
							break
						}
					}
					if ch.Bare() != want.Bare() {
						good, why = false, fmt.Sprintf("version %d: reported %s, accepting path %s", v, ch, want)
					}
				}
				okAny = good
			}
			if !okAny {
				c.Violate("walk-of-no-single-tree", fmt.Sprintf("concurrent-extend round %d", round), fmt.Sprintf("a detection that overlapped registrations %d..%d reports %s after %d detector calls; no version of the tree in that interval has this first-match walk (%s)", vLo, vHi, ch, len(st.trace), why), c03Payload{Entry: "concurrent-extend", In: x, InQ: fw.Quote(x, 40)})
				break
			}
			if vHi > vLo {
				c.Count("walks_overlapping_a_registration", 1)
				c.Distinct(fmt.Sprintf("cx|%d|%d|%d", vLo, vHi, len(st.trace)))
			}
		}
		<-wdone
		st.restore()
		mimetype.VerifResetTree()
	}
}

func c03Run(c *fw.Ctx, b fw.Batch) {
	if b.Kind == "concurrent-extend" {
		c03ConcurrentExtend(c, b.N)
		return
	}
	if b.Kind == "concurrent-limit" {
		c03ConcurrentLimit(c, b.N)
		return
	}
	if b.Kind == "buffer-reuse" {
		c03BufferReuse(c)
		c03FaultyDetector(c)
		c03HugeLimitReader(c)
		return
	}
	r := c.Rand
	seeds := lib.Seeds()
	base := baseTree()
	nh := b.N
	for h := 0; h < nh; h++ {
		var ops []extOp
		if h > 0 || b.Idx%2 == 1 {
			ops = genHistory(r, base, 1+r.Intn(10), seeds, false)
		}
		st := c03Setup(ops)
		if h%2 == 1 {
			// Extend on detection results: the walk must still be the walk of the registered tree
			extendOnResults(r, seeds, 1+r.Intn(4))
		}
		corpus := append([][]byte{}, seeds...)
		seen := map[string]bool{}
		iters := 6000
		for it := 0; it < iters; it++ {
			var x []byte
			if it < len(seeds) {
				x = seeds[it]
				if len(x) > 4096 {
					x = x[:4096]
				}
			} else {
				x = c03Mutate(c, corpus)
			}
			var limit uint32
			switch r.Intn(5) {
			case 0:
				limit = 0
			case 1:
				limit = uint32(r.Intn(len(x) + 2))
			case 2:
				limit = uint32(len(x))
			default:
				limit = 3072
			}
			entry, global := "Detect", limit
			if r.Intn(9) == 0 && limit < 1<<20 {
				entry = "DetectReader" // the reader path: the walk must examine exactly min(len, limit) bytes (whatever limit came before)
				if r.Intn(3) == 0 {
					entry = "DetectFile" // and every detector must be told the limit that was set, also for small files
					if len(x) > 1 && r.Intn(1500) == 0 {
						entry = "DetectFilePaused" // the same through a named pipe that delivers the file in two pieces
						c.Count("walks_through_a_paused_named_pipe", 1)
					}
				}
			} else if r.Intn(4) == 0 {
				entry = "VerifMatch"
				global = []uint32{0, 1, 3072, limit + 1, 77}[r.Intn(5)]
			}
			before := len(st.trace)
			_ = before
			st.judge(c, x, limit, global, entry, "walk")
			// greybox: keep inputs that produce a new trace signature
			var sb strings.Builder
			for _, e := range st.trace {
				if e.ans {
					fmt.Fprintf(&sb, "%d,", e.id)
				}
			}
			if s := sb.String(); !seen[s] {
				seen[s] = true
				if len(corpus) < 3000 {
					corpus = append(corpus, x)
				}
			}
		}
		c.Max("greybox_distinct_accept_paths_in_one_tree", int64(len(seen)))
		st.restore()
	}
	mimetype.VerifResetTree()
}

func init() {
	fw.Register(&fw.Prop{
		ID:    "C03",
		Level: "exploration",
		Rule: "per child: several trees (the built-in tree and trees enlarged by random Extend histories of 1-10 extensions attached to the root, to built-ins at every depth and to earlier extensions, with predicates: always true/false, prefix, contains, length- and limit-dependent, a copy of a built-in sibling's detector, accepts-the-empty-input); per tree 6000 detections: every seed, then greybox mutation (byte flips, truncation, splices of two seeds, prefix transplant; an input giving a new accept path is kept and mutated further) x limits {0, default, len, random} through Detect and through the un-sliced VerifMatch with a different process-wide limit. Every detector call is recorded (node, buffer pointer, len, limit, answer) and checked online against the first-match depth-first specification, then against the independent iterative walk. In further rounds a second goroutine registers extensions (capture formats at the root, sub-formats below application/pdf / text/plain / earlier extensions) while recorded detections run: each walk must be the first-match walk of ONE version of the tree between the registrations that bracket it. In other rounds a second goroutine keeps calling SetLimit while the recorded detections run: every detector of a walk must see one (header, limit) pair and the header must be the first `limit` bytes for that very limit.  A few dozen walks per run go through DetectFile on a named pipe whose writer delivers the file in two pieces with a pause between them." +
			"non-trivial = reported path of depth >= 2 below the root or >= 2 siblings accepting at some level (measured with the model); distinct = distinct (sequence of accepting nodes, number of detector calls, entry).",
		Assumptions: []string{
			"leaf detector funcs are shared between the library and the model (only the walk is independent); their purity is C04's concern",
			"the instrumentation hook wraps detectors under the tree lock and is removed before the next tree",
		},
		Plan: func(tier string, seed int64) []fw.Batch {
			n := 20
			if tier == "thorough" {
				n = 1000
			}
			bs := batches("trees", 16, n, 3000)
			bs = append(bs, batches("concurrent-limit", 2, n*2000, 3000)...)
			bs = append(bs, batches("buffer-reuse", 1, 0, 3000)...)
			ce := batches("concurrent-extend", 4, n*3, 3000)
			for i := range ce {
				ce[i].Env = []string{fmt.Sprintf("GOMAXPROCS=%d", []int{2, 4, 8, 16}[i])}
			}
			return append(bs, ce...)
		},
		Run: c03Run,
		Replay: func(c *fw.Ctx, payload stdjson.RawMessage) {
			var p c03Payload
			if err := stdjson.Unmarshal(payload, &p); err != nil {
				fmt.Println("bad payload:", err)
				return
			}
			if p.Entry == "concurrent-extend" {
				c03ConcurrentExtend(c, 300)
				return
			}
			if p.Entry == "buffer-reuse" {
				c03BufferReuse(c)
				return
			}
			if p.Entry == "concurrent-limit" {
				c03ConcurrentLimit(c, 20000)
				return
			}
			st := c03Setup(p.Ops)
			st.judge(c, p.In, p.Limit, p.Global, p.Entry, "replay")
			st.restore()
		},
		Finish: func(a *fw.Agg) error {
			if a.Counters["detector_events_recorded"] < 1000000 {
				return fmt.Errorf("trace recorder observed only %d detector events", a.Counters["detector_events_recorded"])
			}
			if a.SetSize("nodes_on_reported_paths") < 150 {
				return fmt.Errorf("only %d distinct nodes appeared on reported paths", a.SetSize("nodes_on_reported_paths"))
			}
			return nil
		},
	})
}
