package props

import (
	"bytes"
	stdjson "encoding/json"
	"fmt"
	"math/rand"
	"sort"
	"strings"
	"unicode/utf8"

	"verifharness/internal/fw"
	"verifharness/internal/lib"
)

// C10 — JSON sub-types are decided by top-level members, wherever they appear.
//
// The generator builds an object as a list of members (a Go structure); the
// expected verdict is computed on that structure, never by re-parsing:
//   geojson  iff a top-level "type" member is one of the nine RFC 7946 names
//   else har iff a top-level "log" member is an object with a version/creator/entries member
//   else gltf iff a top-level "asset" object has "version" = "1.0" / "2.0"
//   else plain application/json (.json)

type jval struct {
	kind string // "raw" (scalar text), "arr", "obj"
	raw  string
	arr  []jval
	obj  []jmem
}
type jmem struct {
	key string
	val jval
}

var geoNames = []string{"Feature", "FeatureCollection", "Point", "LineString", "Polygon", "MultiPoint", "MultiLineString", "MultiPolygon", "GeometryCollection"}

func isGeoName(raw string) bool {
	for _, g := range geoNames {
		if raw == `"`+g+`"` {
			return true
		}
	}
	return false
}

// verdict computes the expected (type, extension) and which top-level member
// index (and inner member index) completes the deciding evidence.
func c10Verdict(ms []jmem) (mime, ext string, top, inner int) {
	for i, m := range ms {
		if m.key == "type" && m.val.kind == "raw" && isGeoName(m.val.raw) {
			return "application/geo+json", ".geojson", i, -1
		}
	}
	for i, m := range ms {
		if m.key == "log" && m.val.kind == "obj" {
			for j, im := range m.val.obj {
				if im.key == "version" || im.key == "creator" || im.key == "entries" {
					return "application/json", ".har", i, j
				}
			}
		}
	}
	for i, m := range ms {
		if m.key == "asset" && m.val.kind == "obj" {
			for j, im := range m.val.obj {
				if im.key == "version" && im.val.kind == "raw" && (im.val.raw == `"1.0"` || im.val.raw == `"2.0"`) {
					return "model/gltf+json", ".gltf", i, j
				}
			}
		}
	}
	return "application/json", ".json", -1, -1
}

type c10Layout struct {
	afterOpen, beforeColon, afterColon, afterVal, afterComma string
	lead, trail                                              string // white space around the whole object
}

var c10Layouts = []c10Layout{
	{"", "", "", "", "", "", ""},
	{" ", "", " ", "", " ", "", ""},
	{"\n  ", "", ": "[1:], "\n", "\n  ", "", "\n"},
	{"\r\n\t", " ", " ", "\r\n", "\r\n\t", "", "\r\n"},
	{"", "\t", "\n", " ", "", "", ""},
	{" ", " ", " ", " \t", " ", "", " "},
	// white space in front of the opening brace (the first byte is not '{')
	{"", "", "", "", "", " ", ""},
	{"\n  ", "", " ", "\n", "\n  ", "\n", "\n"},
	{" ", "", " ", "", " ", "\r\n\t ", " "},
	{"", "", "", "", "", "\t", "\t"},
	// more than 512 bytes of white space in front of the object
	{"", "", "", "", "", strings.Repeat(" \n", 300), "\n"},
}

type c10Ser struct {
	buf     bytes.Buffer
	lay     c10Layout
	topEnd  []int   // end offset (exclusive) of each top-level member's value
	innEnd  [][]int // end offsets of the members of a top-level object value
	curTop  int
	tracing bool
}

func (s *c10Ser) val(v jval, depth int, topIdx int) {
	switch v.kind {
	case "raw":
		s.buf.WriteString(v.raw)
	case "arr":
		s.buf.WriteByte('[')
		for i, e := range v.arr {
			if i > 0 {
				s.buf.WriteByte(',')
				s.buf.WriteString(s.lay.afterComma)
			}
			s.val(e, depth+1, -1)
		}
		s.buf.WriteByte(']')
	case "obj":
		s.obj(v.obj, depth+1, topIdx)
	}
}

func (s *c10Ser) obj(ms []jmem, depth int, topIdx int) {
	s.buf.WriteByte('{')
	s.buf.WriteString(s.lay.afterOpen)
	for i, m := range ms {
		if i > 0 {
			s.buf.WriteByte(',')
			s.buf.WriteString(s.lay.afterComma)
		}
		s.buf.WriteString(`"` + m.key + `"`)
		s.buf.WriteString(s.lay.beforeColon)
		s.buf.WriteByte(':')
		s.buf.WriteString(s.lay.afterColon)
		ti := -1
		if depth == 0 {
			ti = i
		}
		s.val(m.val, depth, ti)
		if depth == 0 {
			s.topEnd[i] = s.buf.Len()
		}
		if depth == 1 && topIdx >= 0 {
			s.innEnd[topIdx] = append(s.innEnd[topIdx], s.buf.Len())
		}
		s.buf.WriteString(s.lay.afterVal)
	}
	s.buf.WriteByte('}')
}

func c10Serialize(ms []jmem, lay c10Layout) ([]byte, []int, [][]int) {
	s := &c10Ser{lay: lay, topEnd: make([]int, len(ms)), innEnd: make([][]int, len(ms))}
	s.buf.WriteString(lay.lead)
	s.obj(ms, 0, -1)
	s.buf.WriteString(lay.trail)
	return s.buf.Bytes(), s.topEnd, s.innEnd
}

func raw(s string) jval  { return jval{kind: "raw", raw: s} }
func arr(v ...jval) jval { return jval{kind: "arr", arr: v} }
func obj(m ...jmem) jval { return jval{kind: "obj", obj: m} }

var queryKeys = []string{"type", "log", "asset", "version", "creator", "entries"}

// c10Sibling returns a random non-deciding member (it never completes a
// verdict on its own at the top level) and a shape tag.
// c10DictString returns a printable literal of the tree's source as a JSON string token ("" if none).
func c10DictString(r *rand.Rand) string {
	d := lib.SourceDictionary()
	for try := 0; try < 8 && len(d) > 0; try++ {
		lit := d[r.Intn(len(d))]
		if len(lit) < 2 || len(lit) > 60 || !utf8.Valid(lit) {
			continue
		}
		ok := true
		for _, ch := range lit {
			if ch < 0x20 || ch == '"' || ch == '\\' || ch == 0x7f {
				ok = false
			}
		}
		if ok && !bytes.Contains(lit, []byte("<svg")) {
			return `"` + string(lit) + `"`
		}
	}
	return ""
}

// c10Deep nests `inner` d levels deep in arrays and objects (a sibling whose depth
// exceeds any fixed-size path stack must not change what the members after it mean).
func c10Deep(r *rand.Rand, d int, inner jval) jval {
	v := inner
	for i := 0; i < d; i++ {
		if r.Intn(2) == 0 {
			v = arr(v)
		} else {
			v = obj(jmem{[]string{"k", "type", "log", "version"}[r.Intn(4)], v})
		}
	}
	return v
}

var c10DeepDepths = []int{100, 126, 127, 128, 129, 130, 200, 300}

func c10Sibling(r *rand.Rand, depth int) (jmem, string) {
	if r.Intn(14) == 0 {
		d := c10DeepDepths[r.Intn(len(c10DeepDepths))]
		inner := []jval{raw(`1`), raw(`"Feature"`), obj(jmem{"type", raw(`"Feature"`)}), arr()}[r.Intn(4)]
		if r.Intn(2) == 0 {
			// a nested (non-top-level) object: deep sibling first, then look-alike query keys
			return jmem{[]string{"a", "geometry", "properties"}[r.Intn(3)], obj(jmem{"deep", c10Deep(r, d, inner)}, jmem{"type", raw(`"Feature"`)}, jmem{"log", obj(jmem{"version", raw(`"1.2"`)})}, jmem{"asset", obj(jmem{"version", raw(`"2.0"`)})})}, "deep-then-lookalike"
		}
		return jmem{[]string{"a", "b", "features", "scenes"}[r.Intn(4)], c10Deep(r, d, inner)}, "deep"
	}
	if r.Intn(12) == 0 {
		// a sibling whose KEY is a literal of the tree's source (a key that some other format or a
		// new sub-type looks for must not change the verdict unless the statement names it)
		if lit := c10DictString(r); lit != "" && lit != `"type"` && lit != `"log"` && lit != `"asset"` {
			return jmem{lit[1 : len(lit)-1], raw([]string{`1`, `"x"`, `{}`, `[1]`, `{"version":"2.0"}`}[r.Intn(5)])}, "dict-key"
		}
	}
	keys := []string{"a", "b", "name", "id", "Type", "types", "typ", "logs", "Log", "assets", "Asset", "versions", "x y", "accessors", "features", "geometry", "properties", "scenes", "bbox", "coordinates"}
	key := keys[r.Intn(len(keys))]
	scalars := []string{`1`, `-2.5e3`, `true`, `false`, `null`, `"x"`, `""`, `"Feature "`, `" Point"`, `"feature"`, `"3.0"`, `"2.0 "`, `"1.0"`, `"a,b"`, `"}"`, `"]"`, `"[{"`, `"\\"`, `"\""`, `"é"`, `"é"`, "\"del \x7f inside\"", "\"\x7f\""}
	var scalar = func() jval {
		if r.Intn(10) == 0 {
			// a literal of the tree's source as a string value (what other members contain must not matter)
			if lit := c10DictString(r); lit != "" {
				return raw(lit)
			}
		}
		return raw(scalars[r.Intn(len(scalars))])
	}
	var nested func(d int) jval
	nested = func(d int) jval {
		switch k := r.Intn(7); {
		case k < 2 || d > 3:
			return scalar()
		case k == 2:
			return arr()
		case k == 3:
			n := 1 + r.Intn(3)
			var vs []jval
			for i := 0; i < n; i++ {
				vs = append(vs, nested(d+1))
			}
			return arr(vs...)
		case k == 4:
			return obj()
		default:
			n := 1 + r.Intn(3)
			var ms []jmem
			for i := 0; i < n; i++ {
				k := keys[r.Intn(len(keys))]
				if r.Intn(2) == 0 {
					k = queryKeys[r.Intn(len(queryKeys))]
				}
				v := nested(d + 1)
				if r.Intn(3) == 0 {
					v = raw([]string{`"Feature"`, `"2.0"`, `"1.2"`, `"Point"`}[r.Intn(4)])
				}
				ms = append(ms, jmem{k, v})
			}
			return obj(ms...)
		}
	}
	v := nested(depth)
	tag := "scalar"
	switch v.kind {
	case "arr":
		tag = "emptyarr"
		if len(v.arr) > 0 {
			tag = "arr"
		}
	case "obj":
		tag = "emptyobj"
		if len(v.obj) > 0 {
			tag = "obj"
		}
	}
	// look-alike members using the query keys at the top level without deciding
	if r.Intn(6) == 0 {
		switch r.Intn(6) {
		case 0:
			return jmem{"type", raw([]string{`"feature"`, `"Polygon "`, `"Points"`, `1`, `null`, `""`}[r.Intn(6)])}, "lookalike-type"
		case 1:
			return jmem{"type", arr(raw(`"Feature"`))}, "lookalike-type-arr"
		case 2:
			return jmem{"type", obj(jmem{"type", raw(`"Feature"`)})}, "lookalike-type-obj"
		case 3:
			switch r.Intn(3) {
			case 0:
				return jmem{"log", arr(obj(jmem{"version", raw(`"1.2"`)}))}, "lookalike-log-arr"
			case 1:
				return jmem{"log", arr(raw(`0`), obj(jmem{"version", raw(`"1.2"`)}, jmem{"entries", arr()}))}, "lookalike-log-mixed-arr"
			default:
				return jmem{"asset", arr(raw(`true`), raw(`"x"`), obj(jmem{"version", raw(`"2.0"`)}))}, "lookalike-asset-mixed-arr"
			}
		case 4:
			return jmem{"log", obj(jmem{"x", obj(jmem{"version", raw(`1`)})}, jmem{"Version", raw(`1`)})}, "lookalike-log-deep"
		default:
			return jmem{"asset", obj(jmem{"version", raw([]string{`"3.0"`, `2.0`, `"2.0 "`, `["2.0"]`, `{"version":"2.0"}`}[r.Intn(5)])}, jmem{"generator", raw(`"x"`)})}, "lookalike-asset"
		}
	}
	return jmem{key, v}, tag
}

func c10Decider(r *rand.Rand, which int) jmem {
	switch which {
	case 0:
		return jmem{"type", raw(`"` + geoNames[r.Intn(len(geoNames))] + `"`)}
	case 1:
		inner := []jmem{}
		k := []string{"version", "creator", "entries"}[r.Intn(3)]
		vals := map[string][]jval{
			"version": {raw(`"1.2"`), raw(`1`), raw(`null`)},
			"creator": {obj(), obj(jmem{"name", raw(`"x"`)}, jmem{"version", raw(`"1"`)}), raw(`"me"`)},
			"entries": {arr(), arr(raw(`1`), raw(`2`)), arr(obj(jmem{"request", obj(jmem{"url", raw(`"http://x"`)})}), obj())},
		}
		for i := r.Intn(3); i > 0; i-- {
			m, _ := c10Sibling(r, 2)
			if m.key == "version" || m.key == "creator" || m.key == "entries" {
				continue
			}
			inner = append(inner, m)
		}
		if r.Intn(5) == 0 { // a very deep sibling inside log, in front of the deciding key
			inner = append(inner, jmem{"pages", c10Deep(r, c10DeepDepths[r.Intn(len(c10DeepDepths))], raw(`1`))})
		}
		inner = append(inner, jmem{k, vals[k][r.Intn(len(vals[k]))]})
		for i := r.Intn(2); i > 0; i-- {
			m, _ := c10Sibling(r, 2)
			inner = append(inner, m)
		}
		return jmem{"log", obj(inner...)}
	default:
		inner := []jmem{}
		for i := r.Intn(3); i > 0; i-- {
			m, _ := c10Sibling(r, 2)
			if m.key == "version" {
				continue
			}
			inner = append(inner, m)
		}
		if r.Intn(5) == 0 { // a very deep sibling inside asset, in front of the deciding key
			inner = append(inner, jmem{"extras", c10Deep(r, c10DeepDepths[r.Intn(len(c10DeepDepths))], raw(`"x"`))})
		}
		inner = append(inner, jmem{"version", raw([]string{`"1.0"`, `"2.0"`}[r.Intn(2)])})
		for i := r.Intn(2); i > 0; i-- {
			m, _ := c10Sibling(r, 2)
			inner = append(inner, m)
		}
		return jmem{"asset", obj(inner...)}
	}
}

func c10JudgeObject(c *fw.Ctx, ms []jmem, lay c10Layout, tags []string, allLimits bool) {
	d, topEnd, innEnd := c10Serialize(ms, lay)
	if !stdjson.Valid(d) {
		panic(fmt.Sprintf("verif harness: C10 generator produced invalid JSON %q", d))
	}
	wantT, wantE, top, inner := c10Verdict(ms)
	from := len(lay.lead) + 1 // the opening brace must be inside the header
	if top >= 0 {
		from = topEnd[top]
		if inner >= 0 {
			from = innEnd[top][inner]
		}
	}
	var lims []uint32
	lims = append(lims, 0, uint32(len(d)+1), 3072)
	if allLimits && len(d)-from <= 400 {
		for L := from; L <= len(d); L++ {
			lims = append(lims, uint32(L))
		}
	} else if allLimits {
		// long documents (very deep siblings): the first and last 60 limits, 120 in between
		for L := from; L <= len(d); L++ {
			if L < from+60 || L > len(d)-60 || c.Rand.Intn(1+(len(d)-from)/120) == 0 {
				lims = append(lims, uint32(L))
			}
		}
	} else {
		lims = append(lims, uint32(from), uint32(len(d)))
		if from+1 <= len(d) {
			lims = append(lims, uint32(from+1))
		}
		for k := 0; k < 4 && from < len(d); k++ {
			lims = append(lims, uint32(from+c.Rand.Intn(len(d)-from+1)))
		}
	}
	nontrivial := false
	for _, t := range tags {
		if t == "arr" || t == "obj" || strings.HasPrefix(t, "lookalike") {
			nontrivial = true
		}
	}
	for _, L := range lims {
		if L != 0 && int(L) < from {
			continue
		}
		c10JudgeOne(c, "object", d, L, wantT, wantE)
		if nontrivial {
			mode := "whole"
			if L != 0 && int(L) <= len(d) {
				mode = "truncated"
			}
			before := append([]string{}, tags...)
			if top >= 0 && top < len(before) {
				before = before[:top]
			}
			sort.Strings(before)
			c.Distinct(fmt.Sprintf("%s|%s|%s|%s", strings.Join(before, ","), wantE, mode, lay.afterVal))
		}
	}
	if c.WantSample() && len(d) < 140 && nontrivial && c.Rand.Intn(400) == 0 {
		c.Sample(map[string]any{"document": string(d), "expected": wantT + "|" + wantE, "deciding_member_complete_at": from})
	}
}

func c10JudgeOne(c *fw.Ctx, kind string, d []byte, L uint32, wantT, wantE string) {
	entry := pickEntry(c)
	key := fw.InputKey(d, L, entry)
	c.Trace(func() (string, any) { return key, fw.MkInCase(kind, d, L, entry, wantT+"|"+wantE) })
	var ch lib.Chain
	ok := c.Guard(key, func() any { return fw.MkInCase(kind, d, L, entry, "panic") }, func() {
		m := detectEntry(d, L, entry)
		anomalyC02(c, m, nil)
		ch = lib.ChainOf(m)
	})
	c.Eval(1)
	if !ok {
		return
	}
	lf := ch.Leaf()
	c.Count("verdict_"+wantE, 1)
	if lf.T != wantT || lf.Ext != wantE {
		// a sibling string drawn from the source literals may put another format's pinned
		// signature at the offset where that format looks for it (BOOKMOBI at 60 …): the
		// statement of C08 calls this the higher-priority exception
		if v, why := jsonFamilyOrException(baseTree(), ch); v == "exception" {
			if okx, _ := exceptionJustified(why, lib.Header(d, L)); okx {
				c.Count("exception_higher_priority_format", 1)
				c.SetAdd("exception_formats", why)
				return
			}
		}
		c.Violate("wrong-json-subtype", key,
			fmt.Sprintf("expected %s|%s from the top-level members, got %s; document %s limit %d", wantT, wantE, ch, fw.Quote(d, 160), L),
			fw.InCase{Kind: kind, In: d, Limit: L, Entry: entry, Aux: wantT + "|" + wantE, InQ: fw.Quote(d, 160)})
	}
}

func permutations(n int, f func([]int)) {
	p := make([]int, n)
	for i := range p {
		p[i] = i
	}
	var rec func(k int)
	rec = func(k int) {
		if k == n {
			f(p)
			return
		}
		for i := k; i < n; i++ {
			p[k], p[i] = p[i], p[k]
			rec(k + 1)
			p[k], p[i] = p[i], p[k]
		}
	}
	rec(0)
}

func c10Run(c *fw.Ctx, b fw.Batch) {
	r := c.Rand
	switch b.Kind {
	case "perm":
		// all permutations of <= 5 members, deciding member(s) + siblings
		for i := 0; i < b.N; i++ {
			n := 2 + r.Intn(4)
			var ms []jmem
			var tags []string
			ndec := r.Intn(3) // 0, 1 or 2 deciders (priority between sub-types)
			for k := 0; k < ndec; k++ {
				ms = append(ms, c10Decider(r, r.Intn(3)))
				tags = append(tags, "decider")
			}
			for len(ms) < n {
				m, t := c10Sibling(r, 1)
				ms = append(ms, m)
				tags = append(tags, t)
			}
			lay := c10Layouts[r.Intn(len(c10Layouts))]
			permutations(len(ms), func(p []int) {
				pm := make([]jmem, len(ms))
				pt := make([]string, len(ms))
				for a, bidx := range p {
					pm[a] = ms[bidx]
					pt[a] = tags[bidx]
				}
				c10JudgeObject(c, pm, lay, pt, false)
			})
		}
	case "random":
		for i := 0; i < b.N; i++ {
			n := 1 + r.Intn(8)
			var ms []jmem
			var tags []string
			for len(ms) < n {
				if r.Intn(4) == 0 {
					ms = append(ms, c10Decider(r, r.Intn(3)))
					tags = append(tags, "decider")
				} else {
					m, t := c10Sibling(r, 1)
					ms = append(ms, m)
					tags = append(tags, t)
				}
			}
			if r.Intn(8) == 0 && len(ms) > 1 { // duplicate a member
				k := r.Intn(len(ms))
				ms = append(ms, ms[k])
				tags = append(tags, tags[k])
			}
			lay := c10Layouts[r.Intn(len(c10Layouts))]
			c10JudgeObject(c, ms, lay, tags, true)
		}
	case "dict-keys":
		// every printable literal of the tree's source as the key of one more top-level member
		// (and of a member of log / asset): the verdict stays what the statement's members decide
		for _, lit := range lib.SourceDictionary() {
			if len(lit) < 1 || len(lit) > 40 || !utf8.Valid(lit) {
				continue
			}
			okc := true
			for _, ch := range lit {
				if ch < 0x20 || ch == '"' || ch == '\\' || ch == 0x7f {
					okc = false
				}
			}
			k := string(lit)
			if !okc || k == "type" || k == "log" || k == "asset" || bytes.Contains(lit, []byte("<svg")) {
				continue
			}
			extra := jmem{k, raw([]string{`1`, `"x"`, `{"a":1}`, `["2.0"]`}[r.Intn(4)])}
			inner := k
			if inner == "version" || inner == "creator" || inner == "entries" {
				inner = "x-" + inner
			}
			cases := [][]jmem{
				{extra, {"a", raw(`1`)}},
				{{"a", raw(`1`)}, extra},
				{extra, {"type", raw(`"Feature"`)}},
				{{"log", obj(jmem{inner, raw(`1`)}, jmem{"version", raw(`"1.2"`)})}, extra},
				{extra, {"asset", obj(jmem{"version", raw(`"2.0"`)}, jmem{inner, raw(`true`)})}},
			}
			for _, ms := range cases {
				c10JudgeObject(c, ms, c10Layouts[r.Intn(len(c10Layouts))], []string{"dict-key", "obj"}, false)
			}
			c.Count("source_literals_as_keys", 1)
		}
	case "big":
		// objects of more than 4 MiB and 16 MiB with the deciding member at the very end / start
		for _, size := range []int{5 << 20, 17 << 20} {
			var pad bytes.Buffer
			pad.WriteString(`"pad":[`)
			for pad.Len() < size {
				pad.WriteString(`{"k":[1,2,3],"s":"some text"},`)
			}
			pad.WriteString(`0]`)
			for di, dec := range []string{`"type":"Feature"`, `"log":{"version":"1.2"}`, `"asset":{"version":"2.0"}`} {
				want := [][2]string{{"application/geo+json", ".geojson"}, {"application/json", ".har"}, {"model/gltf+json", ".gltf"}}[di]
				late := []byte("{" + pad.String() + "," + dec + "}")
				early := []byte("{" + dec + "," + pad.String() + "}")
				for _, d := range [][]byte{late, early} {
					for _, L := range []uint32{0, uint32(len(d) + 1)} {
						c10JudgeOne(c, "big", d, L, want[0], want[1])
					}
				}
				c.Count("objects_of_5_MiB_and_more", 1)
			}
		}
	case "long":
		// deciding member pushed towards / across the default limit by big siblings
		for i := 0; i < b.N; i++ {
			var ms []jmem
			var tags []string
			target := 2600 + r.Intn(900)
			size := 0
			for size < target {
				m, t := c10Sibling(r, 0)
				ms = append(ms, m)
				tags = append(tags, t)
				size += len(m.key) + 12
				if m.val.kind != "raw" {
					size += 20
				}
			}
			dec := c10Decider(r, r.Intn(3))
			ms = append(ms, dec)
			tags = append(tags, "decider")
			for k := r.Intn(4); k > 0; k-- {
				m, t := c10Sibling(r, 1)
				ms = append(ms, m)
				tags = append(tags, t)
			}
			c10JudgeObject(c, ms, c10Layouts[r.Intn(len(c10Layouts))], tags, false)
		}
	}
}

func init() {
	fw.Register(&fw.Prop{
		ID:    "C10",
		Level: "exploration",
		Rule: "objects are built as member lists: 0-2 deciding members (type / log / asset, every accepted value form) among siblings that are scalars (incl. look-alike values \"Feature \", \"feature\", \"3.0\"), empty/non-empty/nested arrays, nested objects re-using the query keys at other depths, look-alike top-level members (type as array/object, log as array, asset.version 3.0 / number), duplicates; ALL permutations for <= 5 members; 10 whitespace layouts (4 with white space in front of the opening brace) (compact, spaced, LF-indented, CRLF-indented, …); whole mode and every limit from the end of the deciding value to len (random objects) or sampled limits (permutations, documents around the 3072 default limit). Expected verdict computed on the structure. " +
			"non-trivial = some sibling is a non-empty array, a non-empty object or a look-alike member; distinct = distinct (sorted sibling shapes before the deciding member, verdict, mode, layout).",
		Assumptions: []string{
			"deciding keys and values are spelled literally (no escapes), as the statement requires",
			"for documents qualifying for two sub-types the higher-priority one (geojson > har > gltf) is expected only at limits that include its deciding member",
		},
		Plan: func(tier string, seed int64) []fw.Batch {
			np, nr, nl := 250, 4000, 60
			if tier == "thorough" {
				np, nr, nl = 4000, 60000, 1500
			}
			var bs []fw.Batch
			bs = append(bs, batches("perm", 8, np, 1800)...)
			bs = append(bs, batches("random", 6, nr, 1800)...)
			bs = append(bs, batches("long", 2, nl, 1800)...)
			bs = append(bs, batches("big", 1, 0, 1800)...)
			bs = append(bs, batches("dict-keys", 1, 0, 1800)...)
			return bs
		},
		Run: c10Run,
		Replay: func(c *fw.Ctx, payload stdjson.RawMessage) {
			ic, err := replayInCase(payload)
			if err != nil {
				fmt.Println("bad payload:", err)
				return
			}
			if ic.Entry != "" && ic.Entry != "charset.FromPlain" {
				forcedEntry = ic.Entry
			}
			p := strings.SplitN(ic.Aux, "|", 2)
			if len(p) != 2 {
				fmt.Println("payload without expectation")
				return
			}
			c10JudgeOne(c, ic.Kind, ic.In, ic.Limit, p[0], p[1])
		},
		Finish: func(a *fw.Agg) error {
			for _, e := range []string{".geojson", ".har", ".gltf", ".json"} {
				if a.Counters["verdict_"+e] < 500 {
					return fmt.Errorf("verdict %s exercised only %d times", e, a.Counters["verdict_"+e])
				}
			}
			return nil
		},
	})
}
