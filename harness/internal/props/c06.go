package props

import (
	"bytes"
	stdjson "encoding/json"
	"fmt"
	"io"
	"math/rand"
	"os"
	"path/filepath"
	"runtime"
	"strconv"
	"strings"
	"sync"
	"sync/atomic"
	"time"

	"github.com/anishathalye/porcupine"
	"github.com/gabriel-vasile/mimetype"

	"verifharness/internal/fw"
	"verifharness/internal/gen"
	"verifharness/internal/lib"
)

// C06 — safe for concurrent use.
//
// (a) Race detector: the batches marked Race run under the -race build with
//     GORACE=halt_on_error=0 log_path=…; every DATA RACE block in the logs is a
//     violation (deduplicated by the supervisor), a runtime fatal is a crash.
// (b) Recorded histories (call logged before invoking, return after, one
//     monotonic clock, per-goroutine buffers merged afterwards) are checked with
//     porcupine against sequential models:
//       limit register   write = SetLimit(v) (v unique in the history); read = a
//                        detection whose result reveals the limit it used: probe-B
//                        is accepted only by the static format L_v with limit == v;
//                        ordinary inputs must give the sequential table entry T[x][v]
//       extension register per parent: write = Extend (unique n), read =
//                        Detect(probe of that parent) -> newest extension in force
//       name set         add = Extend returned, contains = Lookup != nil
//       tree snapshot    one goroutine registers children of S0, then a root-level format that
//                        captures the S probe, then more children: a walk holds the tree lock
//                        from the root down, so reads must be explained by ONE tree
// (c) Looked-up values are never half-built: exact type, extension, parent chain,
//     aliases; the caller's alias backing arrays are never written.

type c06Op struct {
	client    int
	kind      string // setlimit, readB, readT, extend, readA, lookup
	key       string // partition: "limit", "ext:<parent>", "name:<n>"
	arg       int
	x         int // ordinary input index (readT)
	out       int
	outs      string
	call, ret int64
}

type c06Slow struct {
	b []byte
	i int
}

func (s *c06Slow) Read(p []byte) (int, error) {
	runtime.Gosched()
	if s.i >= len(s.b) {
		return 0, io.EOF
	}
	n := copy(p[:1], s.b[s.i:])
	s.i += n
	if s.i%4 == 0 {
		time.Sleep(5 * time.Microsecond)
	}
	return n, nil
}

// every non-zero value is >= 64 (longer than every probe, so a probe is never cut) and <= 1 MiB (DetectReader allocates `limit` bytes)
var c06LimitValues = []int{0, 64, 65, 100, 128, 300, 500, 777, 1000, 1023, 1024, 1025, 1200, 1500, 1999, 2000, 2001, 2002, 2500, 3000, 3071, 3072, 3073, 4000, 4096, 5000, 5999, 6000, 6001, 6400, 6600, 7000, 8192, 10000, 20000, 65536, 100000, 250000, 500000, 1 << 20}

type c06Parent struct {
	key    string // "", "text/plain", "application/zip", "E0"
	lookup string // name passed to Lookup ("" = package-level Extend)
	probe  []byte
	prefix []byte
}

type c06Env struct {
	parents  []c06Parent
	ordinary [][]byte
	table    [][]string // T[x][vi]
	files    []string   // probe files for DetectFile (per parent)
	dir      string
}

func c06Ordinary(r *rand.Rand) [][]byte {
	o := gen.JSONOpts{MaxDepth: 3, MaxItems: 5, WS: 1, NoSvg: true, AsciiOnly: true}
	big := []byte("[")
	for len(big) < 6500 {
		big = append(append(big, gen.JSONDoc(r, o)...), ',')
	}
	big = append(big, "1]"...)
	csv := bytes.Repeat([]byte("alpha,beta,gamma\n"), 400)
	txt := bytes.Repeat([]byte("plain text line\n"), 125) // 2000 bytes
	txt = append(txt, 0x00, 0x01)
	txt = append(txt, bytes.Repeat([]byte("more\n"), 100)...)
	var nd []byte
	for len(nd) < 5000 {
		nd = append(append(nd, bytes.TrimSpace(gen.JSONDoc(r, gen.JSONOpts{MaxDepth: 2, MaxItems: 3, NoSvg: true, AsciiOnly: true}))...), '\n')
	}
	geo := []byte(`{"pad":"` + strings.Repeat("x", 1200) + `","type":"Feature","more":[` + strings.Repeat("1,", 1500) + `1]}`)
	return [][]byte{big, csv, txt, nd, geo, []byte("short text"), []byte(`{"a":1}`)}
}

func c06Setup(hist int, env *c06Env, base *lib.Tree) {
	mimetype.VerifResetTree()
	// static formats revealing the limit a detection used
	for _, v := range c06LimitValues {
		vv := uint32(v)
		mimetype.Extend(func(raw []byte, l uint32) bool { return l == vv && bytes.HasPrefix(raw, []byte("VERIF-B")) }, "application/x-verif-limit-"+strconv.Itoa(v), ".vl")
	}
	// E0: an extension that itself becomes a parent
	mimetype.Extend(func(raw []byte, _ uint32) bool { return bytes.HasPrefix(raw, []byte("VERIF-C")) }, "application/x-verif-e0", ".e0")
	// version 0 of every per-parent register
	for _, p := range env.parents {
		c06Extend(p, hist, 0, nil)
	}
	// S0: parent of the snapshot-consistency register (see the "snap" partition)
	mimetype.Extend(func(raw []byte, _ uint32) bool { return bytes.HasPrefix(raw, []byte("VERIF-S")) }, "application/x-verif-s0", ".s0")
	c06ExtendS(hist, 0)
}

// c06ExtendS registers child n of S0.
func c06ExtendS(hist, n int) {
	lk := mimetype.Lookup("application/x-verif-s0")
	lk.Extend(func(raw []byte, _ uint32) bool {
		runtime.Gosched()
		return bytes.HasPrefix(raw, []byte("VERIF-S"))
	}, fmt.Sprintf("application/x-verif-ext-s0-%d-%d", hist, n), ".vs")
}

func c06Name(hist, n int, parentKey string) string {
	pk := map[string]string{"": "root", "text/plain": "text", "application/zip": "zip", "E0": "e0"}[parentKey]
	if n%5 == 3 {
		return fmt.Sprintf("application/X-Verif-Ext-%s-%d-%d", pk, hist, n) // upper-case letters in the name
	}
	return fmt.Sprintf("application/x-verif-ext-%s-%d-%d", pk, hist, n)
}

func c06Extend(p c06Parent, hist, n int, aliases []string) {
	pre := p.prefix
	det := func(raw []byte, _ uint32) bool {
		runtime.Gosched() // yield while the read lock is held
		return bytes.HasPrefix(raw, pre)
	}
	name := c06Name(hist, n, p.key)
	if p.lookup == "" {
		mimetype.Extend(det, name, ".ve", aliases...)
		return
	}
	lk := mimetype.Lookup(p.lookup)
	if lk == nil {
		panic("verif harness: Lookup(" + p.lookup + ") is nil")
	}
	lk.Extend(det, name, ".ve", aliases...)
}

func c06ParseN(s string) int {
	i := strings.LastIndexByte(s, '-')
	if i < 0 || !strings.Contains(strings.ToLower(s), "x-verif-ext-") {
		return -1
	}
	n, err := strconv.Atoi(s[i+1:])
	if err != nil {
		return -1
	}
	return n
}

type c06Payload struct {
	Seed     int64  `json:"history_seed"`
	Procs    int    `json:"gomaxprocs"`
	What     string `json:"what"`
	Detail   string `json:"detail"`
	NWriters int    `json:"writers"`
}

// c06History runs one gated concurrent history and checks it.
func c06History(c *fw.Ctx, env *c06Env, base *lib.Tree, hist int, hseed int64, procs int) {
	r := rand.New(rand.NewSource(hseed))
	c06Setup(hist, env, base)
	mimetype.SetLimit(3072)
	start := time.Now()
	now := func() int64 { return int64(time.Since(start)) }
	var mu sync.Mutex
	var all []c06Op
	var wg sync.WaitGroup
	gate := make(chan struct{})
	var nextN [4]int32 // per parent version counter
	maxN := 14
	perm := r.Perm(len(c06LimitValues))
	payload := func(what, detail string) c06Payload {
		return c06Payload{Seed: hseed, Procs: procs, What: what, Detail: detail}
	}
	var sentMu sync.Mutex
	type sentinel struct {
		full []string
		n    int
		name string
	}
	var sentinels []sentinel
	stopSpare := make(chan struct{})
	var spareWG sync.WaitGroup

	client := func(id int, f func(id int, rr *rand.Rand, rec func(c06Op))) {
		wg.Add(1)
		rr := rand.New(rand.NewSource(r.Int63()))
		go func() {
			defer wg.Done()
			var ops []c06Op
			<-gate
			f(id, rr, func(o c06Op) { o.client = id; ops = append(ops, o) })
			mu.Lock()
			all = append(all, ops...)
			mu.Unlock()
		}()
	}
	pace := func(k int) {
		for i := 0; i < k; i++ {
			runtime.Gosched()
		}
	}
	// limit writers (2): disjoint unique values
	for w := 0; w < 2; w++ {
		vals := perm[w*10 : w*10+10]
		client(w, func(id int, rr *rand.Rand, rec func(c06Op)) {
			for _, vi := range vals {
				pace(20 + rr.Intn(60))
				v := c06LimitValues[vi]
				o := c06Op{kind: "setlimit", key: "limit", arg: vi, call: now()}
				mimetype.SetLimit(uint32(v))
				o.ret = now()
				rec(o)
			}
		})
	}
	// extension writers (3): random parent, alias slices of every shape
	for w := 0; w < 3; w++ {
		client(10+w, func(id int, rr *rand.Rand, rec func(c06Op)) {
			for i := 0; i < 10; i++ {
				pace(15 + rr.Intn(50))
				pi := rr.Intn(len(env.parents))
				p := env.parents[pi]
				n := int(atomic.AddInt32(&nextN[pi], 1))
				if n >= maxN {
					continue
				}
				name := c06Name(hist, n, p.key)
				alias := strings.ToLower(name) + "-alias"
				var al []string
				switch (n + id) % 5 {
				case 0:
					al = nil
				case 1:
					al = make([]string, 2, 2)
					al[0], al[1] = alias, alias+"2"
				case 2, 3:
					k := 1 + rr.Intn(8)
					full := make([]string, 1+k)
					for j := range full {
						full[j] = "SENTINEL"
					}
					full[0] = alias
					al = full[:1]
					sentMu.Lock()
					sentinels = append(sentinels, sentinel{full, 1, name})
					sentMu.Unlock()
					if (n+id)%5 == 3 {
						// the caller keeps reading its own spare slots
						spareWG.Add(1)
						go func(full []string) {
							defer spareWG.Done()
							for {
								select {
								case <-stopSpare:
									return
								default:
								}
								// the caller may read its own slice at any time: used slot and spare slots
								if full[0] == "" {
									return
								}
								for j := 1; j < len(full); j++ {
									if full[j] != "SENTINEL" {
										return
									}
								}
								time.Sleep(20 * time.Microsecond)
							}
						}(full)
					}
				default:
					// two alias slices sharing one backing array
					backing := make([]string, 4, 8)
					for j := range backing[:8] {
						backing[:8][j] = "SENTINEL"
					}
					backing[0], backing[1] = alias, alias+"2"
					al = backing[0:2]
					sentMu.Lock()
					sentinels = append(sentinels, sentinel{backing[:8], 2, name})
					sentMu.Unlock()
				}
				o := c06Op{kind: "extend", key: "ext:" + p.key, arg: n, call: now()}
				c06Extend(p, hist, n, al)
				o.ret = now()
				rec(o)
				rec(c06Op{kind: "add", key: "name:" + name, call: o.call, ret: o.ret})
				if len(al) > 0 {
					rec(c06Op{kind: "add", key: "name:" + alias, call: o.call, ret: o.ret})
				}
				// (c) never half-built: the freshly registered format, seen through Lookup
				for _, nm := range append([]string{name}, al...) {
					lk := mimetype.Lookup(nm)
					if lk == nil {
						c.Violate("registered-format-not-found", "lookup-after-extend "+p.key, fmt.Sprintf("Extend(%s) returned but Lookup(%q) is nil", name, nm), payload("lookup-after-extend", nm))
						continue
					}
					wantParent := p.lookup
					if p.key == "" {
						wantParent = "application/octet-stream"
					} else if p.key == "E0" {
						wantParent = "application/x-verif-e0"
					}
					if lk.String() != name || lk.Extension() != ".ve" || lk.Parent() == nil || lk.Parent().String() != wantParent {
						c.Violate("half-built-format", "lookup-fields "+p.key, fmt.Sprintf("Lookup(%q) = %s|%s parent %v, registered as %s|.ve under %s", nm, lk.String(), lk.Extension(), lk.Parent(), name, wantParent), payload("half-built", nm))
					}
					for _, a := range al {
						if !lk.Is(a) {
							c.Violate("half-built-format", "lookup-alias "+p.key, fmt.Sprintf("Lookup(%q).Is(%q) is false right after registration", nm, a), payload("half-built-alias", nm))
						}
					}
				}
			}
		})
	}
	// snapshot writer: children 1..5 of S0, then a ROOT-level format that captures the
	// S probe (it is in front of S0), then children 6..9 of S0, all from one goroutine.
	// A walk holds the tree lock from the root down, so it sees one tree: once the
	// capture exists no detection may still come back with a child of S0 - in
	// particular not with one registered after the capture.
	client(15, func(id int, rr *rand.Rand, rec func(c06Op)) {
		capAt := 3 + rr.Intn(4)
		for i := 1; i <= 9; i++ {
			pace(10 + rr.Intn(40))
			o := c06Op{kind: "extendS", key: "snap", arg: i, call: now()}
			c06ExtendS(hist, i)
			o.ret = now()
			rec(o)
			if i == capAt {
				pace(5)
				oc := c06Op{kind: "capture", key: "snap", call: now()}
				mimetype.Extend(func(raw []byte, _ uint32) bool { return bytes.HasPrefix(raw, []byte("VERIF-S")) }, fmt.Sprintf("application/x-verif-capture-%d", hist), ".vc")
				oc.ret = now()
				rec(oc)
			}
		}
	})
	for k := 0; k < 3; k++ {
		client(16+k, func(id int, rr *rand.Rand, rec func(c06Op)) {
			probeS := []byte("VERIF-S snapshot probe")
			for i := 0; i < 70; i++ {
				o := c06Op{kind: "readS", key: "snap", call: now()}
				var m *mimetype.MIME
				if i%4 == 0 {
					m, _ = mimetype.DetectReader(&c06Slow{b: probeS})
				} else {
					m = mimetype.Detect(probeS)
				}
				o.ret = now()
				s := m.String()
				switch {
				case strings.HasPrefix(s, "application/x-verif-capture-"):
					o.out = -2
				default:
					o.out = c06ParseN(s)
				}
				o.outs = lib.ChainOf(m).String()
				rec(o)
			}
		})
	}
	// probe-A readers: two per parent (a freshly registered format is detected
	// for the first time by several goroutines at once), three entry points
	for pj := 0; pj < 2*len(env.parents); pj++ {
		pi := pj % len(env.parents)
		client(20+pj, func(id int, rr *rand.Rand, rec func(c06Op)) {
			p := env.parents[pi]
			for i := 0; i < 45; i++ {
				o := c06Op{kind: "readA", key: "ext:" + p.key, call: now()}
				var m *mimetype.MIME
				switch i % 5 {
				case 0:
					m, _ = mimetype.DetectReader(&c06Slow{b: p.probe})
				case 1:
					m, _ = mimetype.DetectFile(env.files[pi])
				default:
					m = mimetype.Detect(p.probe)
				}
				o.ret = now()
				o.out = c06ParseN(m.String())
				ch := lib.ChainOf(m)
				o.outs = ch.String()
				rec(o)
				// returned values are never half-built: the hierarchy ends at the root
				if len(ch) < 2 || ch[len(ch)-1].T != "application/octet-stream" {
					c.Violate("half-built-result", "result-chain "+p.key, fmt.Sprintf("a detection of the %s probe returned the hierarchy %s, which does not end at application/octet-stream", p.key, ch), payload("half-built-result", p.key))
				}
				if rr.Intn(3) == 0 {
					pace(5)
				}
			}
		})
	}
	// probe-B and ordinary-input readers
	for k := 0; k < 3; k++ {
		k := k
		client(30+k, func(id int, rr *rand.Rand, rec func(c06Op)) {
			probeB := []byte("VERIF-B probe payload")
			for i := 0; i < 60; i++ {
				if (i+k)%2 == 0 {
					o := c06Op{kind: "readB", key: "limit", call: now()}
					var m *mimetype.MIME
					if i%3 == 0 {
						m, _ = mimetype.DetectReader(&c06Slow{b: probeB})
					} else {
						m = mimetype.Detect(probeB)
					}
					o.ret = now()
					o.out = -1
					if s := m.String(); strings.HasPrefix(s, "application/x-verif-limit-") {
						if v, err := strconv.Atoi(s[len("application/x-verif-limit-"):]); err == nil {
							for vi, lv := range c06LimitValues {
								if lv == v {
									o.out = vi
								}
							}
						}
					}
					o.outs = m.String()
					rec(o)
				} else {
					xi := rr.Intn(len(env.ordinary))
					o := c06Op{kind: "readT", key: "limit", x: xi, call: now()}
					var m *mimetype.MIME
					if i%4 == 1 {
						m, _ = mimetype.DetectReader(bytes.NewReader(env.ordinary[xi]))
					} else {
						m = mimetype.Detect(env.ordinary[xi])
					}
					o.ret = now()
					o.outs = lib.ChainOf(m).String()
					rec(o)
				}
			}
		})
	}
	// Lookup readers with accessor calls on shared nodes
	for k := 0; k < 2; k++ {
		client(40+k, func(id int, rr *rand.Rand, rec func(c06Op)) {
			for i := 0; i < 80; i++ {
				pi := rr.Intn(len(env.parents))
				n := 1 + rr.Intn(maxN-1)
				name := c06Name(hist, n, env.parents[pi].key)
				lname := name
				if i%3 == 0 { // through the alias (registered for alias shapes 1-4, never for shape 0)
					lname = strings.ToLower(name) + "-alias"
				}
				o := c06Op{kind: "lookup", key: "name:" + lname, call: now()}
				lk := mimetype.Lookup(lname)
				o.ret = now()
				if lk != nil {
					o.out = 1
					if lk.String() != name || lk.Extension() != ".ve" || lk.Parent() == nil {
						c.Violate("half-built-format", "lookup-concurrent", fmt.Sprintf("concurrent Lookup(%q) returned %s|%s parent %v", name, lk.String(), lk.Extension(), lk.Parent()), payload("half-built-concurrent", name))
					}
					_ = lk.Is(name)
					_ = lk.Is("text/plain")
				}
				rec(o)
				// accessor methods on shared built-in nodes too
				if b := mimetype.Lookup("application/zip"); b != nil {
					_ = b.Is("application/x-zip-compressed")
					_ = b.Extension()
					_ = b.Parent().String()
				}
			}
		})
	}
	close(gate)
	wg.Wait()
	close(stopSpare)
	spareWG.Wait()
	c.Tick()

	// caller-owned alias arrays must be untouched
	for _, s := range sentinels {
		for j := s.n; j < len(s.full); j++ {
			if s.full[j] != "SENTINEL" {
				c.Violate("caller-array-written", "alias-backing-array", fmt.Sprintf("the library wrote %q into slot %d of the caller's alias backing array (extension %s registered with %d aliases, capacity %d)", s.full[j], j, s.name, s.n, len(s.full)), payload("caller-array", s.name))
				break
			}
		}
	}

	// ---- check the history
	byKey := map[string][]c06Op{}
	for _, o := range all {
		byKey[o.key] = append(byKey[o.key], o)
	}
	informative := false
	distinctReads := map[string]bool{}
	overlaps := 0
	for key, ops := range byKey {
		var pops []porcupine.Operation
		var model porcupine.Model
		type in struct {
			kind string
			v, x int
		}
		switch {
		case key == "limit":
			tbl := env.table
			init := -1
			for vi, lv := range c06LimitValues {
				if lv == 3072 {
					init = vi
				}
			}
			model = porcupine.Model{
				Init: func() interface{} { return init },
				Step: func(st, input, output interface{}) (bool, interface{}) {
					i := input.(in)
					switch i.kind {
					case "w":
						return true, i.v
					case "b":
						return output.(c06Op).out == st.(int), st
					default:
						return tbl[i.x][st.(int)] == output.(c06Op).outs, st
					}
				},
				DescribeOperation: func(input, output interface{}) string {
					i := input.(in)
					o := output.(c06Op)
					switch i.kind {
					case "w":
						return fmt.Sprintf("SetLimit(%d)", c06LimitValues[i.v])
					case "b":
						return fmt.Sprintf("Detect(probe-B) saw limit index %d (%s)", o.out, o.outs)
					}
					return fmt.Sprintf("Detect(ordinary #%d) -> %s", i.x, o.outs)
				},
			}
			for _, o := range ops {
				switch o.kind {
				case "setlimit":
					pops = append(pops, porcupine.Operation{ClientId: o.client, Input: in{"w", o.arg, 0}, Call: o.call, Output: o, Return: o.ret})
				case "readB":
					pops = append(pops, porcupine.Operation{ClientId: o.client, Input: in{"b", 0, 0}, Call: o.call, Output: o, Return: o.ret})
					distinctReads["B"+strconv.Itoa(o.out)] = true
				case "readT":
					pops = append(pops, porcupine.Operation{ClientId: o.client, Input: in{"t", 0, o.x}, Call: o.call, Output: o, Return: o.ret})
				}
			}
		case key == "snap":
			type snapState struct {
				captured bool
				k        int
			}
			model = porcupine.Model{
				Init: func() interface{} { return snapState{} },
				Step: func(st, input, output interface{}) (bool, interface{}) {
					i := input.(in)
					ss := st.(snapState)
					switch i.kind {
					case "w":
						ss.k = i.v
						return true, ss
					case "c":
						ss.captured = true
						return true, ss
					}
					want := ss.k
					if ss.captured {
						want = -2
					}
					return output.(c06Op).out == want, ss
				},
				DescribeOperation: func(input, output interface{}) string {
					i := input.(in)
					switch i.kind {
					case "w":
						return fmt.Sprintf("Extend(child %d of S0)", i.v)
					case "c":
						return "Extend(root-level capture)"
					}
					return fmt.Sprintf("Detect(S probe) -> %d (%s)", output.(c06Op).out, output.(c06Op).outs)
				},
			}
			for _, o := range ops {
				switch o.kind {
				case "extendS":
					pops = append(pops, porcupine.Operation{ClientId: o.client, Input: in{"w", o.arg, 0}, Call: o.call, Output: o, Return: o.ret})
				case "capture":
					pops = append(pops, porcupine.Operation{ClientId: o.client, Input: in{"c", 0, 0}, Call: o.call, Output: o, Return: o.ret})
				default:
					pops = append(pops, porcupine.Operation{ClientId: o.client, Input: in{"r", 0, 0}, Call: o.call, Output: o, Return: o.ret})
					distinctReads["S"+strconv.Itoa(o.out)] = true
				}
			}
		case strings.HasPrefix(key, "ext:"):
			model = porcupine.Model{
				Init: func() interface{} { return 0 },
				Step: func(st, input, output interface{}) (bool, interface{}) {
					i := input.(in)
					if i.kind == "w" {
						return true, i.v
					}
					return output.(c06Op).out == st.(int), st
				},
				DescribeOperation: func(input, output interface{}) string {
					i := input.(in)
					if i.kind == "w" {
						return fmt.Sprintf("Extend(version %d)", i.v)
					}
					return fmt.Sprintf("Detect(probe) -> version %d (%s)", output.(c06Op).out, output.(c06Op).outs)
				},
			}
			for _, o := range ops {
				if o.kind == "extend" {
					pops = append(pops, porcupine.Operation{ClientId: o.client, Input: in{"w", o.arg, 0}, Call: o.call, Output: o, Return: o.ret})
				} else {
					pops = append(pops, porcupine.Operation{ClientId: o.client, Input: in{"r", 0, 0}, Call: o.call, Output: o, Return: o.ret})
					distinctReads[key+strconv.Itoa(o.out)] = true
				}
			}
		default: // name set
			model = porcupine.Model{
				Init: func() interface{} { return 0 },
				Step: func(st, input, output interface{}) (bool, interface{}) {
					i := input.(in)
					if i.kind == "w" {
						return true, 1
					}
					return output.(c06Op).out == st.(int), st
				},
			}
			for _, o := range ops {
				if o.kind == "add" {
					pops = append(pops, porcupine.Operation{ClientId: 1000 + o.client, Input: in{"w", 1, 0}, Call: o.call, Output: o, Return: o.ret})
				} else {
					pops = append(pops, porcupine.Operation{ClientId: o.client, Input: in{"r", 0, 0}, Call: o.call, Output: o, Return: o.ret})
				}
			}
		}
		// overlap count: writes overlapping reads in real time
		for _, w := range ops {
			if w.kind != "setlimit" && w.kind != "extend" && w.kind != "add" && w.kind != "extendS" && w.kind != "capture" {
				continue
			}
			for _, rd := range ops {
				if rd.kind == w.kind || rd.kind == "setlimit" || rd.kind == "extend" || rd.kind == "add" || rd.kind == "extendS" || rd.kind == "capture" {
					continue
				}
				if rd.call < w.ret && w.call < rd.ret {
					overlaps++
				}
			}
		}
		// porcupine requires distinct client ids not to overlap with themselves: ops of one client are sequential by construction
		res, info := porcupine.CheckOperationsVerbose(model, pops, 60*time.Second)
		c.Tick()
		c.Count("partitions_checked", 1)
		c.Count("operations_checked", int64(len(pops)))
		switch res {
		case porcupine.Ok:
			c.Count("porcupine_ok", 1)
		case porcupine.Unknown:
			c.Count("porcupine_unknown", 1)
			c.Inconclusive(fmt.Sprintf("porcupine timed out on partition %s (%d operations) of history seed %d", key, len(pops), hseed))
		default:
			c.Count("porcupine_illegal", 1)
			_ = info
			var sb strings.Builder
			n := 0
			for _, o := range ops {
				if n > 40 {
					sb.WriteString(" …")
					break
				}
				fmt.Fprintf(&sb, "\n    client %d %s arg=%d out=%d %s [%d,%d]", o.client, o.kind, o.arg, o.out, o.outs, o.call, o.ret)
				n++
			}
			c.Violate("not-linearizable", "history partition="+strings.SplitN(key, "-", 2)[0], fmt.Sprintf("no sequential order of the recorded operations on %q explains what the readers observed (history seed %d, GOMAXPROCS %d, %d operations):%s", key, hseed, procs, len(pops), sb.String()), payload("history", key))
		}
	}
	c.Eval(int64(len(all)))
	c.Count("histories", 1)
	c.Count("write_read_overlaps_observed", int64(overlaps))
	c.Max("distinct_values_read_in_one_history", int64(len(distinctReads)))
	if overlaps > 0 && len(distinctReads) >= 3 {
		informative = true
	}
	if informative {
		c.Count("informative_histories", 1)
		c.Distinct(fmt.Sprintf("procs=%d|overlaps=%d|reads=%d", procs, minInt(overlaps/20, 30), minInt(len(distinctReads), 40)))
	} else {
		c.Count("uninformative_histories", 1)
	}
	if c.WantSample() && informative && r.Intn(10) == 0 {
		var ex []string
		for i, o := range all {
			if i > 12 {
				break
			}
			ex = append(ex, fmt.Sprintf("client %d %s key=%s arg=%d out=%d call=%d ret=%d", o.client, o.kind, o.key, o.arg, o.out, o.call, o.ret))
		}
		c.Sample(map[string]any{"history_seed": hseed, "gomaxprocs": procs, "operations": len(all), "write_read_overlaps": overlaps, "distinct_values_read": len(distinctReads), "first_events": ex})
	}
}

func c06MakeEnv(c *fw.Ctx) *c06Env {
	env := &c06Env{}
	env.parents = []c06Parent{
		{"", "", []byte("VERIF-R probe for the root"), []byte("VERIF-R")},
		{"text/plain", "text/plain", []byte("VERIF-T probe text for text/plain"), []byte("VERIF-T")},
		{"application/zip", "application/zip", []byte("PK\x03\x04VERIF-Z probe"), []byte("PK\x03\x04VERIF-Z")},
		{"E0", "application/x-verif-e0", []byte("VERIF-C probe for an extension of an extension"), []byte("VERIF-C")},
	}
	env.ordinary = c06Ordinary(rand.New(rand.NewSource(c.Seed)))
	// sequential table T[x][v], computed before any concurrency, on the tree with the static formats
	c06Setup(0, env, baseTree())
	for _, x := range env.ordinary {
		var row []string
		for _, v := range c06LimitValues {
			row = append(row, lib.ChainOf(lib.Detect(x, uint32(v))).String())
		}
		env.table = append(env.table, row)
	}
	dir, err := os.MkdirTemp("", "verif-c06-")
	if err != nil {
		panic("verif harness: " + err.Error())
	}
	env.dir = dir
	for i, p := range env.parents {
		f := filepath.Join(dir, fmt.Sprintf("probe-%d.bin", i))
		os.WriteFile(f, p.probe, 0o600)
		env.files = append(env.files, f)
	}
	return env
}

// c06FirstExtend: readers are already running when the FIRST Extend of the process
// happens (a process has only one such moment: one child process per round, run under
// the race detector). Nothing but the built-in tree has been used before.
func c06FirstExtend(c *fw.Ctx, b fw.Batch) {
	probe := []byte("VERIF-FIRST-EXTEND probe")
	inputs := [][]byte{probe, []byte("{\"a\":1}"), []byte("<html><body>"), []byte("PK\x03\x04\x14\x00"), []byte("plain text")}
	var wg sync.WaitGroup
	stop := make(chan struct{})
	var after, wrong int64
	var extended int32
	for g := 0; g < 8; g++ {
		wg.Add(1)
		go func(g int) {
			defer wg.Done()
			for i := 0; ; i++ {
				select {
				case <-stop:
					return
				default:
				}
				was := atomic.LoadInt32(&extended) == 1
				var m *mimetype.MIME
				switch g % 3 {
				case 0:
					m = mimetype.Detect(inputs[i%len(inputs)])
				case 1:
					m, _ = mimetype.DetectReader(bytes.NewReader(inputs[i%len(inputs)]))
				default:
					if lk := mimetype.Lookup("text/plain"); lk == nil || lk.Parent() == nil {
						atomic.AddInt64(&wrong, 1)
					}
					m = mimetype.Detect(probe)
				}
				if was && i%len(inputs) == 0 && g%3 != 1 || was && g%3 == 2 {
					atomic.AddInt64(&after, 1)
					if !strings.HasPrefix(m.String(), "application/x-verif-first") {
						atomic.AddInt64(&wrong, 1)
					}
				}
			}
		}(g)
	}
	time.Sleep(time.Duration(2+b.Idx%5) * time.Millisecond)
	mimetype.Extend(func(raw []byte, _ uint32) bool { return bytes.HasPrefix(raw, []byte("VERIF-FIRST-EXTEND")) }, "application/x-verif-first", ".vf1")
	atomic.StoreInt32(&extended, 1)
	if lk := mimetype.Lookup("application/x-verif-first"); lk == nil || !lk.Is("application/x-verif-first") {
		atomic.AddInt64(&wrong, 1)
	}
	time.Sleep(20 * time.Millisecond)
	close(stop)
	wg.Wait()
	c.Eval(1)
	c.Count("first_extend_rounds", 1)
	c.Count("detections_after_the_first_extend", atomic.LoadInt64(&after))
	if w := atomic.LoadInt64(&wrong); w > 0 {
		c.Violate("registered-format-not-found", "first-extend", fmt.Sprintf("%d detections of the probe that started after the first Extend of the process had returned did not report the new format (or Lookup returned a half-built node)", w), c06Payload{What: "first-extend", Procs: runtime.GOMAXPROCS(0)})
	}
	c.Distinct(fmt.Sprintf("first-extend|%d", b.Idx))
}

func c06Run(c *fw.Ctx, b fw.Batch) {
	if b.Kind == "shared" {
		c06SharedRun(c, b)
		return
	}
	if b.Kind == "first-extend" {
		c06FirstExtend(c, b)
		return
	}
	procs := runtime.GOMAXPROCS(0)
	env := c06MakeEnv(c)
	defer os.RemoveAll(env.dir)
	base := baseTree()
	for h := 0; h < b.N; h++ {
		hseed := c.Rand.Int63()
		c.Trace(func() (string, any) {
			return fmt.Sprintf("history seed=%d", hseed), c06Payload{Seed: hseed, Procs: procs, What: "history"}
		})
		c06History(c, env, base, h+1, hseed, procs)
	}
	mimetype.VerifResetTree()
	mimetype.SetLimit(3072)
}

func init() {
	fw.Register(&fw.Prop{
		ID:    "C06",
		Level: "exploration",
		Rule: "many short gated histories (14 goroutines, ~500 operations each): 2 SetLimit writers with values unique in the history, 3 Extend writers (package level, on text/plain and application/zip looked up by name, on an earlier extension) passing caller-owned alias slices of every shape (nil, exact capacity, spare capacity 1-8 with the caller reading its spare slots concurrently, two slices sharing one backing array), names partly with upper-case letters; readers: Detect / DetectReader through a yielding one-byte reader / DetectFile on probe inputs that reveal the newest extension of each parent and the limit used, ordinary limit-sensitive inputs (6 KiB JSON, CSV, NDJSON, text with a late binary byte, late-deciding GeoJSON), Lookup of names being registered plus accessor calls (String, Extension, Parent, Is) on shared nodes; extension detectors yield while the read lock is held. GOMAXPROCS in {2, 4, 16}. First-Extend rounds: one child process per round (race build) in which 8 goroutines are already detecting / looking up when the first Extend of the process happens. Shared-data batches: every corpus seed, signature variant and generated tar archive is detected as ONE slice by 6 goroutines at once (Detect and DetectReader; the slice sits in a read-only mapping in the plain build, so a write by the library faults; under the race detector a write is a race report) and every result must be the sequential one; then ONE returned value is walked (Parent chain, String, Extension, Is) by 6 goroutines at once and each must see the complete hierarchy. Race batches run under the race detector; all histories are checked with porcupine per partition (limit register incl. sequential table T[x][v], one extension register per parent, one set per name, and a two-level snapshot register: children of a sub-format plus a root-level format that captures their probe, written by one goroutine). " +
			"non-trivial (informative) = at least one write overlapped a read in real time and the readers saw >= 3 distinct values; distinct = distinct (GOMAXPROCS, overlap bucket, number of distinct values read).",
		Assumptions: []string{
			"the limit and the tree are read at two instants, so they are checked as independent registers (a single common instant would alarm on correct code)",
			"schedules are sampled; the race detector sees only races between executed pairs of accesses",
			"porcupine timeout (60 s per partition) => inconclusive, never a violation",
		},
		Plan: func(tier string, seed int64) []fw.Batch {
			nr, np := 60, 400
			if tier == "thorough" {
				nr, np = 2500, 20000
			}
			var bs []fw.Batch
			for i, p := range []int{2, 4, 16, 8} {
				bs = append(bs, fw.Batch{Name: fmt.Sprintf("race-procs%d", p), Kind: "race", Idx: i, N: nr, Race: true, TimeoutS: 3000, Env: []string{fmt.Sprintf("GOMAXPROCS=%d", p)}})
			}
			for i, p := range []int{2, 4, 16, 16} {
				bs = append(bs, fw.Batch{Name: fmt.Sprintf("plain-procs%d-%d", p, i), Kind: "plain", Idx: 10 + i, N: np, TimeoutS: 3000, Env: []string{fmt.Sprintf("GOMAXPROCS=%d", p)}})
			}
			ns := 1
			if tier == "thorough" {
				ns = 12
			}
			nf := 6
			if tier == "thorough" {
				nf = 40
			}
			for i := 0; i < nf; i++ {
				bs = append(bs, fw.Batch{Name: fmt.Sprintf("first-extend-%d", i), Kind: "first-extend", Idx: 30 + i, N: 1, Race: true, TimeoutS: 600, Env: []string{fmt.Sprintf("GOMAXPROCS=%d", []int{4, 8, 16}[i%3])}})
			}
			bs = append(bs, fw.Batch{Name: "shared-race", Kind: "shared", Idx: 20, N: ns, Race: true, TimeoutS: 3000, Env: []string{"GOMAXPROCS=8"}})
			bs = append(bs, fw.Batch{Name: "shared-plain", Kind: "shared", Idx: 21, N: 2 * ns, TimeoutS: 3000, Env: []string{"GOMAXPROCS=8"}})
			return bs
		},
		Run: c06Run,
		Replay: func(c *fw.Ctx, payload stdjson.RawMessage) {
			var p c06Payload
			if err := stdjson.Unmarshal(payload, &p); err != nil {
				fmt.Println("bad payload:", err)
				return
			}
			var sp c06SharedPayload
			if stdjson.Unmarshal(payload, &sp) == nil && sp.What == "shared" {
				fmt.Println("schedules are not deterministic: the shared-input case is re-run 200 times (read-only mapping)")
				if sp.Procs > 0 {
					runtime.GOMAXPROCS(sp.Procs)
				}
				for i := 0; i < 200 && c.NViol() == 0; i++ {
					c06SharedCase(c, sp.In, sp.Limit, false, sp.Procs)
				}
				return
			}
			if p.What == "first-extend" {
				fmt.Println("the first Extend of a process happens once: re-run the check (race build) to reproduce")
				c06FirstExtend(c, fw.Batch{Idx: 1})
				return
			}
			fmt.Println("schedules are not deterministic: the history with the recorded seed is re-run 30 times")
			if p.Procs > 0 {
				runtime.GOMAXPROCS(p.Procs)
			}
			env := c06MakeEnv(c)
			defer os.RemoveAll(env.dir)
			for i := 0; i < 30 && c.NViol() == 0; i++ {
				c06History(c, env, baseTree(), i+1, p.Seed, p.Procs)
			}
		},
		Finish: func(a *fw.Agg) error {
			if a.Counters["informative_histories"] < 20 {
				return fmt.Errorf("only %d informative histories (write overlapping read, >= 3 distinct values read) out of %d", a.Counters["informative_histories"], a.Counters["histories"])
			}
			if a.Counters["porcupine_ok"] == 0 {
				return fmt.Errorf("no partition was checked")
			}
			return nil
		},
	})
}

// c06SharedPayload replays one shared-input / shared-result case.
type c06SharedPayload struct {
	What  string `json:"what"` // "shared"
	In    []byte `json:"in"`
	Limit uint32 `json:"limit"`
	Procs int    `json:"gomaxprocs"`
}

// c06Shared: (1) ONE input slice is given to several goroutines' Detect /
// DetectReader at the same time - the library may only read it (under the race
// detector a write is a DATA RACE report; in the plain build the slice lives in a
// read-only mapping, so a write faults and the case is pinned) and each result must
// be the sequential one; (2) ONE returned value is read through its accessors by
// several goroutines at once - each must see the complete hierarchy.
func c06SharedCase(c *fw.Ctx, x []byte, lim uint32, race bool, procs int) {
	pl := c06SharedPayload{What: "shared", In: x, Limit: lim, Procs: procs}
	key := fw.InputKey(x, lim, "Detect/shared-by-goroutines")
	c.Trace(func() (string, any) { return key, pl })
	mimetype.SetLimit(lim)
	want := lib.ChainOf(mimetype.Detect(append([]byte(nil), x...))).String()
	buf := append([]byte(nil), x...)
	var ro *lib.ROBuf
	if !race {
		ro = lib.NewROBuf(x)
		buf = ro.B
		defer ro.Free()
	}
	const G = 6
	var wg sync.WaitGroup
	gate := make(chan struct{})
	got := make([]string, G)
	for g := 0; g < G; g++ {
		wg.Add(1)
		go func(g int) {
			defer wg.Done()
			<-gate
			for rep := 0; rep < 3; rep++ {
				var m *mimetype.MIME
				if g%3 == 2 {
					m, _ = mimetype.DetectReader(bytes.NewReader(buf))
				} else {
					m = mimetype.Detect(buf)
				}
				if s := lib.ChainOf(m).String(); s != want {
					got[g] = s
				}
			}
		}(g)
	}
	close(gate)
	wg.Wait()
	c.Eval(G * 3)
	c.Count("shared_input_rounds", 1)
	for g, s := range got {
		if s != "" {
			c.Violate("shared-input-result", key, fmt.Sprintf("%d goroutines detected the SAME input slice at once; goroutine %d got %s, a sequential detection gives %s (limit %d)", G, g, s, want, lim), pl)
			break
		}
	}
	if !bytes.Equal(buf, x) {
		c.Violate("shared-input-modified", key, "the shared input slice differs from its original content after the concurrent detections", pl)
	}
	// one returned value, many readers
	m0 := mimetype.Detect(buf)
	gate2 := make(chan struct{})
	seen := make([]string, G)
	for g := 0; g < G; g++ {
		wg.Add(1)
		go func(g int) {
			defer wg.Done()
			<-gate2
			var parts []string
			n := 0
			for p := m0; p != nil && n < 64; p = p.Parent() {
				parts = append(parts, p.String()+"|"+p.Extension())
				if !p.Is(p.String()) {
					parts = append(parts, "!Is")
				}
				n++
			}
			seen[g] = strings.Join(parts, " <- ")
		}(g)
	}
	close(gate2)
	wg.Wait()
	c.Eval(G)
	var ref []string
	for p := mimetype.Detect(append([]byte(nil), x...)); p != nil; p = p.Parent() {
		ref = append(ref, p.String()+"|"+p.Extension())
	}
	refS := strings.Join(ref, " <- ")
	for g, s := range seen {
		if s != refS {
			c.Violate("half-built-result", key, fmt.Sprintf("a returned value was read by %d goroutines at once; goroutine %d saw the hierarchy [%s], a value read by one goroutine gives [%s]", G, g, s, refS), pl)
			break
		}
	}
	c.Distinct("shared|" + want)
}

func c06SharedInputs(r *rand.Rand) [][]byte {
	ins := append([][]byte{}, lib.Seeds()...)
	ins = append(ins, c18KnownTar(), bytes.Repeat([]byte("alpha,beta,gamma\n"), 300), bytes.Repeat([]byte("a\tb\tc\n"), 300), bytes.Repeat([]byte("{\"a\":[1,2,3]}\n"), 200))
	for i := 0; i < 12; i++ {
		a, _ := c18Archive(r)
		ins = append(ins, a)
	}
	return ins
}

// c06Liveness: calls that must not block each other for ever.
// (1) DetectReader on a reader whose data only arrives after another goroutine's Extend has
// returned (the library must not hold its tree lock while it waits for the caller's reader);
// (2) after a detector registered through Extend panicked and the caller recovered, Extend and
// Detect still return (a lock taken for the walk is released on every path).
// The 30 s waits are liveness guards of the harness: correct code needs microseconds.
func c06Liveness(c *fw.Ctx) (stuck bool) {
	// (1)
	extDone := make(chan struct{})
	rd := &c06GatedReader{b: []byte("{\"type\":\"Feature\",\"k\":[1,2,3]}"), gate: extDone}
	resCh := make(chan string, 1)
	go func() {
		mimetype.SetLimit(3072)
		m, _ := mimetype.DetectReader(rd)
		resCh <- lib.ChainOf(m).String()
	}()
	<-rdStarted(rd)
	go func() {
		mimetype.Extend(func(raw []byte, _ uint32) bool { return bytes.HasPrefix(raw, []byte("VERIF-LIVENESS")) }, "application/x-verif-liveness", ".vl")
		close(extDone)
	}()
	c.Eval(1)
	c.Count("liveness_scenarios", 1)
	select {
	case <-resCh:
	case <-time.After(30 * time.Second):
		c.Violate("calls-block-each-other", "DetectReader waits for its reader while Extend waits for DetectReader", "Extend did not return within 30 s while a DetectReader call was waiting for data from its reader (the reader delivers only after that Extend has returned): the tree lock is held across the caller's Read", c06Payload{What: "liveness"})
		rd.force()
		select {
		case <-resCh:
		case <-time.After(30 * time.Second):
			return true
		}
	}
	// (2)
	mimetype.Extend(func(raw []byte, _ uint32) bool { return raw[0] == 'V' && raw[1] == 'X' }, "application/x-verif-faulty", ".vf") // no length check: panics on inputs shorter than 2 bytes
	func() {
		defer func() { recover() }()
		mimetype.Detect([]byte{})
	}()
	func() {
		defer func() { recover() }()
		mimetype.DetectReader(bytes.NewReader([]byte("V")))
	}()
	done := make(chan struct{})
	go func() {
		mimetype.Extend(func(raw []byte, _ uint32) bool { return false }, "application/x-verif-after-fault", ".va")
		mimetype.Detect([]byte("plain text after the fault"))
		mimetype.Lookup("text/plain")
		close(done)
	}()
	c.Eval(1)
	c.Count("liveness_scenarios", 1)
	select {
	case <-done:
	case <-time.After(30 * time.Second):
		c.Violate("calls-block-each-other", "Extend after a recovered detector panic", "after a detector registered with Extend panicked inside Detect / DetectReader and the caller recovered, a later Extend + Detect + Lookup did not return within 30 s (a lock taken for the tree walk was not released)", c06Payload{What: "liveness"})
		return true // every further call into the library would block as well
	}
	mimetype.VerifResetTree()
	return false
}

type c06GatedReader struct {
	b       []byte
	gate    chan struct{}
	started chan struct{}
	once    sync.Once
	forced  chan struct{}
	pos     int
}

func rdStarted(r *c06GatedReader) chan struct{} {
	r.once.Do(func() { r.started = make(chan struct{}); r.forced = make(chan struct{}) })
	return r.started
}

func (r *c06GatedReader) force() { close(r.forced) }

func (r *c06GatedReader) Read(p []byte) (int, error) {
	rdStarted(r)
	if r.pos == 0 {
		select {
		case <-r.started:
		default:
			close(r.started)
		}
		select {
		case <-r.gate:
		case <-r.forced:
		}
	}
	if r.pos >= len(r.b) {
		return 0, io.EOF
	}
	n := copy(p, r.b[r.pos:])
	r.pos += n
	return n, nil
}

func c06SharedRun(c *fw.Ctx, b fw.Batch) {
	procs := runtime.GOMAXPROCS(0)
	if !b.Race {
		if c06Liveness(c) {
			return
		}
	}
	// one detection of a text with a single line of more than 1 MiB (limit 0) first: whatever
	// the pooled readers / parsers are left with must not be shared by two later detections
	// many DISTINCT strings through the comparison helpers from several goroutines at once (a cache
	// of parsed names that fills up and is reset must stay safe and must not change any answer)
	{
		node := mimetype.Lookup("text/plain")
		var wgc sync.WaitGroup
		var wrongAns int64
		for g := 0; g < 8; g++ {
			wgc.Add(1)
			go func(g int) {
				defer wgc.Done()
				for i := 0; i < 1500; i++ {
					own := fmt.Sprintf("Text/Plain ; n=%d-%d", g, i)
					other := fmt.Sprintf("application/x-never-%d-%d", g, i)
					if !node.Is(own) || node.Is(other) || !mimetype.EqualsAny(own, other, "text/plain") || mimetype.EqualsAny(other, own) {
						atomic.AddInt64(&wrongAns, 1)
					}
				}
			}(g)
		}
		wgc.Wait()
		c.Eval(8 * 1500 * 4)
		c.Count("distinct_names_through_is_and_equalsany", 8*1500*2)
		if wrongAns > 0 {
			c.Violate("half-built-format", "Is/EqualsAny with many distinct strings", fmt.Sprintf("%d wrong answers from Is / EqualsAny while 8 goroutines passed 24000 distinct strings through them", wrongAns), c06Payload{What: "liveness"})
		}
	}
	poisonA := append(bytes.Repeat([]byte("a,b;c "), 220000), "\n1,2\n"...)
	poisonB := append(append([]byte("[\""), bytes.Repeat([]byte("x"), 1200000)...), "\"]"...)
	poison := func() {
		mimetype.SetLimit(0)
		mimetype.Detect(poisonA)
		mimetype.Detect(poisonB)
	}
	poison()
	ins := c06SharedInputs(c.Rand)
	// the line-oriented inputs first (right behind the predecessor), and the predecessor again
	// every 25 inputs: pooled objects do not survive many garbage collections
	tables := [][]byte{bytes.Repeat([]byte("alpha,beta,gamma\n"), 300), bytes.Repeat([]byte("a\tb\tc\n"), 300), bytes.Repeat([]byte("{\"a\":[1,2,3]}\n"), 200), []byte("a,b\n1,2\n3,4\n")}
	for k := 0; k < 6; k++ {
		ins = append(append([][]byte{}, tables...), ins...)
	}
	for rep := 0; rep < b.N; rep++ {
		for i, x := range ins {
			if len(x) > 20000 {
				x = x[:20000]
			}
			if i%25 == 0 || i < 24 {
				poison()
			}
			lim := []uint32{3072, 3072, 0, 512, uint32(len(x))}[c.Rand.Intn(5)]
			c06SharedCase(c, x, lim, b.Race, procs)
		}
	}
	mimetype.SetLimit(3072)
}
