package props

import (
	"bytes"
	stdjson "encoding/json"
	"fmt"
	"runtime"
	"runtime/debug"
	"strings"

	"github.com/gabriel-vasile/mimetype"

	"verifharness/internal/fw"
	"verifharness/internal/gen"
	"verifharness/internal/lib"
)

// C16 — nesting bombs cannot exhaust the stack.
//
// Monitors: (1) the child runs with debug.SetMaxStack(64 MiB): unbounded
// recursion on a 10^6-deep bomb is a fatal stack overflow, which the supervisor
// pins on the case; (2) each bomb is detected in its own goroutine which is kept
// parked while MemStats.StackInuse is read (GC off), so the increment is that
// goroutine's final stack size: it must plateau (not grow with depth);
// (3) a bomb deeper than 2x4096 must not be reported in the JSON family (nor as
// NDJSON when it is one of the lines).

type c16Shape struct{ name, open, mid, close string }

var c16Shapes = []c16Shape{
	{"array", "[", "", "]"},
	{"object", `{"k":`, "1", "}"},
	{"mixed", `[{"k":`, "1", "}]"},
	{"padded-array", "[ ", "", " ]"},
	{"padded-object", "{ \"k\" : ", "null", " }"},
	{"array-in-object-list", `{"a":1,"k":[`, "2", `]}`},
	{"object-with-earlier-members", `{"x":[1],"y":"s","k":`, "0", "}"},
	{"newline-array", "[\n", "", "\n]"},
	{"array-after-an-element", "[0,", "1", "]"},
	{"object-after-a-member", `{"a":0,"k":`, "1", "}"},
	{"object-value-after-colon-space", `{"k": `, "1", "}"},
}

type c16Case struct {
	Shape  string `json:"shape"`
	Depth  int    `json:"depth"`
	Closed bool   `json:"closed"`
	Mode   string `json:"mode"`   // limit0, limit2g, limit-len, limit-half, reader0, ndjson-line
	Primer string `json:"primer"` // detection executed just before (same pooled state)
	// Shape "repeat": Unit repeated Depth times, then Tail (no nesting at all: the
	// statement bounds ANY recursion during detection by a fixed depth)
	Unit   []byte `json:"unit,omitempty"`
	Tail   string `json:"tail,omitempty"`
	Prefix string `json:"prefix,omitempty"`
}

func (k c16Case) refKey() string {
	if k.Shape == "repeat" {
		return "repeat|" + k.Prefix + "|" + string(k.Unit)
	}
	return k.Shape
}

func (k c16Case) key() string {
	if k.Shape == "repeat" {
		return fmt.Sprintf("repeat prefix=%q unit=%q x %d tail=%q mode=%s", k.Prefix, k.Unit, k.Depth, k.Tail, k.Mode)
	}
	return fmt.Sprintf("bomb shape=%s depth=%d closed=%v mode=%s primer=%s", k.Shape, k.Depth, k.Closed, k.Mode, k.Primer)
}

func c16Doc(k c16Case) []byte {
	if k.Shape == "repeat" {
		return append(append([]byte(k.Prefix), bytes.Repeat(k.Unit, k.Depth)...), k.Tail...)
	}
	var sh c16Shape
	for _, s := range c16Shapes {
		if s.name == k.Shape {
			sh = s
		}
	}
	per := strings.Count(sh.open, "[") + strings.Count(sh.open, "{")
	n := k.Depth / per
	if !k.Closed {
		return gen.Nest(sh.open, "", "", n)
	}
	return gen.Nest(sh.open, sh.mid, sh.close, n)
}

var c16Primers = map[string][]byte{
	"none":               nil,
	"deep-unclosed-200":  bytes.Repeat([]byte("["), 200),
	"deep-unclosed-obj":  bytes.Repeat([]byte(`{"k":`), 300),
	"deep-closed-1000":   gen.Nest("[", "", "]", 1000),
	"bomb-5000-unclosed": bytes.Repeat([]byte("["), 5000),
	"geojson":            []byte(`{"type":"Feature"}`),
	"csv":                []byte("a,b\n1,2\n"),
}

func stackInuse() uint64 {
	var ms runtime.MemStats
	runtime.ReadMemStats(&ms)
	return ms.StackInuse
}

type c16Out struct {
	chain lib.Chain
	incKB int64
	panic string
}

func c16Exec(k c16Case, doc []byte) c16Out {
	if p := c16Primers[k.Primer]; p != nil {
		mimetype.SetLimit(3072)
		mimetype.Detect(p)
	}
	in := doc
	var limit uint32
	switch k.Mode {
	case "limit0", "reader0":
		limit = 0
	case "limit2g":
		limit = 1 << 31
	case "limit-len":
		limit = uint32(len(doc))
	case "limit-half":
		limit = uint32(len(doc) / 2)
	case "ndjson-line":
		limit = 0
		in = append(append([]byte("{\"a\":1}\n"), doc...), "\n[2]\n"...)
	case "reader1-8m":
		limit = 8 << 20
	}
	done := make(chan c16Out, 1)
	release := make(chan struct{})
	before := stackInuse()
	go func() {
		var out c16Out
		func() {
			defer func() {
				if e := recover(); e != nil {
					out.panic = fmt.Sprint(e)
				}
			}()
			mimetype.SetLimit(limit)
			var m *mimetype.MIME
			if k.Mode == "reader0" {
				m, _ = mimetype.DetectReader(bytes.NewReader(in))
			} else if k.Mode == "reader1-8m" {
				m, _ = mimetype.DetectReader(iotest1{bytes.NewReader(in)}) // one byte per Read: millions of Read calls
			} else {
				m = mimetype.Detect(in)
			}
			out.chain = lib.ChainOf(m)
		}()
		done <- out
		<-release
	}()
	out := <-done
	after := stackInuse()
	close(release)
	out.incKB = (int64(after) - int64(before)) / 1024
	return out
}

// examinedDepth is the deepest nesting reached inside the examined header
// (the shapes have no brackets inside strings).
func examinedDepth(doc []byte, k c16Case) int {
	h := doc
	switch k.Mode {
	case "limit-half":
		h = doc[:len(doc)/2]
	}
	d, max := 0, 0
	for _, b := range h {
		switch b {
		case '[', '{':
			d++
			if d > max {
				max = d
			}
		case ']', '}':
			d--
		}
	}
	return max
}

func c16Judge(c *fw.Ctx, k c16Case, refKB map[string]int64, doc []byte) {
	if doc == nil {
		doc = c16Doc(k)
	}
	c.Trace(func() (string, any) { return k.key(), k })
	out := c16Exec(k, doc)
	runtime.GC()
	c.Eval(1)
	exDepth := examinedDepth(doc, k)
	if out.panic != "" {
		c.Violate("panic", k.key(), "panic: "+out.panic, k)
		return
	}
	fam := inJSONFamily(out.chain) || (k.Mode == "ndjson-line" && out.chain.Has("application/x-ndjson"))
	if k.Shape == "repeat" {
		// only the stack monitors apply (crash under the 64 MiB cap, plateau)
		exDepth = 0
		c.Count("repeated_unit_inputs", 1)
		c.Max("repeated_unit_input_bytes", int64(len(doc)))
	}
	if exDepth >= 8192 {
		c.Count("bombs_deeper_than_2x_cap", 1)
		if fam {
			c.Violate("bomb-reported-as-json", k.key(), fmt.Sprintf("examined header nested %d deep (cap 4096) reported as %s", exDepth, out.chain), k)
		}
	}
	if k.Depth >= 4090 && k.Depth <= 4105 && k.Closed && k.Mode == "limit0" && k.Primer == "none" {
		c.SetAdd("boundary_verdicts_not_asserted", fmt.Sprintf("%s depth %d json=%v", k.Shape, k.Depth, fam))
	}
	c.Max("stack_increment_KiB_any_depth", out.incKB)
	c.Max(fmt.Sprintf("stack_increment_KiB_depth_%d", k.Depth), out.incKB)
	ref := refKB[k.refKey()]
	if (exDepth > 8192 || (k.Shape == "repeat" && k.Depth > 8192)) && ref > 0 {
		lim := 4 * ref
		if lim < 8192 {
			lim = 8192
		}
		if out.incKB > lim {
			c.Violate("stack-grows-with-depth", k.key(), fmt.Sprintf("goroutine stack grew by %d KiB at depth %d, %d KiB at depth 8192 (plateau expected)", out.incKB, k.Depth, ref), k)
		}
	}
	st := mimetype.VerifJSONPoolPeek()
	c.SetAdd("pooled_parser_maxRecursion_seen", fmt.Sprint(st.MaxRecursion))
	if exDepth >= 8192 {
		c.Distinct(fmt.Sprintf("%s|%d|%v|%s|%s", k.Shape, k.Depth, k.Closed, k.Mode, k.Primer))
	}
	if k.Shape == "repeat" && k.Depth > 8192 {
		c.Distinct(fmt.Sprintf("repeat|%q|%q|%s|%s", k.Prefix, k.Unit, k.Tail, k.Mode))
	}
	if c.WantSample() && c.Rand.Intn(10) == 0 {
		c.Sample(map[string]any{"case": k, "input_bytes": len(doc), "result": out.chain.String(), "stack_increment_KiB": out.incKB})
	}
}

func c16Depths(tier string) []int {
	d := []int{10, 4096, 4097, 4098, 8192, 20000, 100000, 1000000}
	if tier == "thorough" {
		d = append(d, 3000000, 10000000)
	}
	return d
}

// c16Units: byte sequences that a scanner may "skip and try again" - if that retry
// is a recursive call, the depth grows with the input (BOMs, white space, markup
// openers, comment starts, separators, magic numbers).
func c16Units() [][]byte {
	var us [][]byte
	for _, s := range []string{"\xEF\xBB\xBF", "\xFF\xFE", "\xFE\xFF", "\x00\x00\xFE\xFF", " ", "\n", "\r\n", "\t", "\x0c", "\r",
		"<", "<!--", "<!-- -->", "<?", "<?xml ", "<?xml version=\"1.0\"?>", "<a>", "<a ", "<![CDATA[", "<!DOCTYPE ", "<html>", "<svg>", "</", "<meta ", "<meta charset", "&", ">",
		",", ":", "\"", "\\", "\"\"", "1,", "{}", "[]", "[],", "{},", "\"a\":", "//", "/*", "/**/", "#", "#!", "#\n", "--", "'", ";", "=", "charset=", "encoding=",
		"\x00", "\xff", "\x80", "\x1a\x45\xdf\xa3", "PK\x03\x04", "PK\x05\x06", "\x1f\x8b", "ftyp", "RIFF", "ID3", "\xff\xfb", "OggS", "%PDF-", "%!PS", "BEGIN:", "\n\n", "a", "a,", "a\t", "\"a\"\n", "{\"a\":1}\n", "1\n"} {
		us = append(us, []byte(s))
	}
	return us
}

func c16Repeats(c *fw.Ctx, b fw.Batch) {
	units := c16Units()
	dict := lib.SourceDictionary()
	nd := 40
	size := 6 << 20
	if c.Tier == "thorough" {
		nd, size = 400, 24<<20
	}
	for i := 0; i < nd && len(dict) > 0; i++ {
		t := dict[c.Rand.Intn(len(dict))]
		if len(t) > 0 && len(t) <= 64 {
			units = append(units, t)
		}
	}
	refKB := map[string]int64{}
	if b.Idx == b.Of-1 {
		// units repeated INSIDE a construct: escape sequences inside one JSON string, elements of
		// one array, members of one object, attributes of one tag, dashes of one comment, rows
		// of one table, doubled quotes of one CSV cell (a scanner that calls itself "for the rest")
		framed := [][3]string{{`["`, `\n`, `"]`}, {`["`, `\u0041`, `"]`}, {`["`, `\\`, `"]`}, {`["`, `\"`, `"]`}, {`{"`, `\t`, `":1}`}, {`[`, `1,`, `1]`}, {`[`, `"a",`, `"a"]`}, {`[`, `{},`, `{}]`}, {`{"a":"b"`, `,"a":"b"`, `}`},
			{`<!--`, `-`, `-->`}, {`<!--`, `--`, `>`}, {`<html `, `a=b `, `>`}, {`<meta `, `charset `, `>`}, {`<meta content="`, `charset `, `">`}, {`<?xml `, `a="b" `, `?>`}, {`<a>`, `&amp;`, `</a>`},
			{"a,b\n", "1,2\n", ""}, {"a\tb\n", "1\t2\n", ""}, {`a,"`, `""`, "\"\n1,2\n"}, {"{\"a\":1}\n", "[1]\n", ""}, {"#!/bin/sh\n", "#\n", ""}, {"BEGIN:VCARD\n", "N:x\n", "END:VCARD\n"}, {"WEBVTT\n\n", "1\n", ""},
			// nesting constructs of other formats behind their magic numbers
			{"d8:announce", "l", ""}, {"d8:announce", "d1:a", ""}, {"d8:announce3:urlli0e", "li0e", ""}, {"%PDF-1.7\n1 0 obj\n", "<<", ""}, {"%PDF-1.7\n1 0 obj\n", "[", ""}, {"%!PS-Adobe-3.0\n", "{", ""}, {"{\\rtf1", "{", ""}, {"{\\rtf1", "{\\b ", ""},
			{"<?xml version=\"1.0\"?>", "<a>", ""}, {"<html>", "<div>", ""}, {"<svg>", "<g>", ""}, {"(", "(", ""}, {"#!/usr/bin/env python\n", "(", ""}, {"<?php ", "(", ""}, {"\x1a\x45\xdf\xa3", "\x1a\x45\xdf\xa3\x81", ""}, {"\x00\x00\x00\x18ftypmp42", "\x00\x00\x00\x08moov", ""}}
		for _, fr := range framed {
			u := []byte(fr[1])
			rk := c16Case{Shape: "repeat", Prefix: fr[0], Unit: u, Tail: fr[2], Depth: 8192, Mode: "limit0", Primer: "none"}
			out := c16Exec(rk, c16Doc(rk))
			runtime.GC()
			refKB[rk.refKey()] = out.incKB
			if refKB[rk.refKey()] < 64 {
				refKB[rk.refKey()] = 64
			}
			n := size / len(u)
			for _, tail := range []string{fr[2], ""} {
				doc := c16Doc(c16Case{Shape: "repeat", Prefix: fr[0], Unit: u, Depth: n, Tail: tail})
				for _, mode := range []string{"limit0", "reader0"} {
					if c.Tier != "thorough" && mode == "reader0" && tail == "" {
						continue
					}
					c16Judge(c, c16Case{Shape: "repeat", Prefix: fr[0], Unit: u, Depth: n, Tail: tail, Mode: mode, Primer: "none"}, refKB, doc)
				}
			}
		}
	}
	if b.Idx == 0 {
		// the reader path with millions of one-byte reads under a limit of 8 MiB
		for _, u := range [][]byte{[]byte("["), []byte("a"), {0}} {
			rk := c16Case{Shape: "repeat", Unit: u, Depth: 8192, Mode: "reader1-8m", Primer: "none"}
			out := c16Exec(rk, c16Doc(rk))
			runtime.GC()
			refKB[rk.refKey()] = out.incKB
			if refKB[rk.refKey()] < 64 {
				refKB[rk.refKey()] = 64
			}
			n := 9 << 20
			if c.Tier != "thorough" {
				n = 5 << 20
			}
			c16Judge(c, c16Case{Shape: "repeat", Unit: u, Depth: n, Mode: "reader1-8m", Primer: "none"}, refKB, nil)
		}
	}
	lo, hi := split(len(units), b.Idx, b.Of)
	for _, u := range units[lo:hi] {
		rk := c16Case{Shape: "repeat", Unit: u, Depth: 8192, Mode: "limit0", Primer: "none"}
		out := c16Exec(rk, c16Doc(rk))
		runtime.GC()
		refKB[rk.refKey()] = out.incKB
		if refKB[rk.refKey()] < 64 {
			refKB[rk.refKey()] = 64
		}
		n := size / len(u)
		for ti, tail := range []string{"", "[1]", "x"} {
			doc := c16Doc(c16Case{Shape: "repeat", Unit: u, Depth: n, Tail: tail})
			for mi, mode := range []string{"limit0", "limit2g", "reader0"} {
				if c.Tier != "thorough" && (ti+mi)%3 != 0 && !(ti == 0 && mi == 0) {
					continue
				}
				c16Judge(c, c16Case{Shape: "repeat", Unit: u, Depth: n, Tail: tail, Mode: mode, Primer: "none"}, refKB, doc)
			}
		}
	}
}

func c16Run(c *fw.Ctx, b fw.Batch) {
	debug.SetGCPercent(-1)
	debug.SetMaxStack(64 << 20)
	if b.Kind == "repeats" {
		c16Repeats(c, b)
		return
	}
	sh := c16Shapes[b.Idx%len(c16Shapes)]
	refKB := map[string]int64{}
	// reference increment at depth 8192 for this shape
	for _, closed := range []bool{true, false} {
		k := c16Case{Shape: sh.name, Depth: 8192, Closed: closed, Mode: "limit0", Primer: "none"}
		out := c16Exec(k, c16Doc(k))
		runtime.GC()
		if out.incKB > refKB[sh.name] {
			refKB[sh.name] = out.incKB
		}
	}
	if refKB[sh.name] < 64 {
		refKB[sh.name] = 64
	}
	c.Max("reference_stack_increment_KiB_depth_8192", refKB[sh.name])
	modes := []string{"limit0", "limit2g", "limit-len", "limit-half", "reader0", "ndjson-line"}
	primers := []string{"none", "deep-unclosed-200", "deep-unclosed-obj", "deep-closed-1000", "bomb-5000-unclosed", "geojson", "csv"}
	for _, depth := range c16Depths(c.Tier) {
		for _, closed := range []bool{true, false} {
			doc := c16Doc(c16Case{Shape: sh.name, Depth: depth, Closed: closed})
			for mi, mode := range modes {
				if depth >= 3000000 && (mode == "ndjson-line" || mode == "limit-half" || mode == "reader0") {
					continue
				}
				// every primer at the cheap depths, a rotating one at the expensive ones
				ps := primers
				if depth > 100000 {
					ps = []string{primers[(mi+depth/1000)%len(primers)], "deep-unclosed-200"}
				}
				for _, p := range ps {
					c16Judge(c, c16Case{Shape: sh.name, Depth: depth, Closed: closed, Mode: mode, Primer: p}, refKB, doc)
				}
			}
		}
	}
}

func init() {
	fw.Register(&fw.Prop{
		ID:    "C16",
		Level: "exploration",
		Rule: "bombs = 11 nesting shapes ('[', '{\"k\":', '[{\"k\":', whitespace-padded, with earlier members, newline-separated) x depths 10 … 10^6 (10^7 thorough) x closed/unclosed x 6 modes (Detect limit 0, limit 2^31, limit = len, limit = len/2, DetectReader limit 0, as one line of an NDJSON stream) x 7 primer detections executed just before on the same pooled parser state (GOMAXPROCS=1, GC off: the pooled state really is reused). Repeats = ~75 non-nesting units (BOMs, white space, markup / comment openers, separators, magic numbers) and literals drawn from the source of the tree under test, each repeated to 6 MiB (24 MiB thorough), alone and followed by '[1]' / 'x', through Detect with limit 0 / 2^31 and DetectReader; the same inside one construct (escape sequences of one JSON string, elements of one array, attributes of one tag, dashes of one comment, rows of one table, doubled quotes of one cell): any recursion whose depth follows the input overflows the 64 MiB stack or breaks the plateau. Each bomb runs in its own goroutine in a child whose maximum stack is 64 MiB. " +
			"non-trivial = depth >= 8192 (twice the cap); distinct = distinct (shape, depth, closed, mode, primer).",
		Assumptions: []string{
			"a fatal stack overflow kills the child; the supervisor re-runs the batch in trace mode and pins the case",
			"the verdict exactly at the cap (4097/4098) is recorded, not asserted; <= 4096 => JSON is C08's claim",
			"stack plateau threshold: increment at depth > 8192 must not exceed max(4 x increment at depth 8192, 8 MiB)",
		},
		Plan: func(tier string, seed int64) []fw.Batch {
			var bs []fw.Batch
			for i := range c16Shapes {
				bs = append(bs, fw.Batch{Name: "bombs-" + c16Shapes[i].name, Kind: "bombs", Idx: i, Of: len(c16Shapes), TimeoutS: 3000, Env: []string{"GOMAXPROCS=1"}})
			}
			for i := 0; i < 6; i++ {
				bs = append(bs, fw.Batch{Name: fmt.Sprintf("repeats-%d/6", i), Kind: "repeats", Idx: i, Of: 6, TimeoutS: 3000, Env: []string{"GOMAXPROCS=1"}})
			}
			return bs
		},
		Run: c16Run,
		Replay: func(c *fw.Ctx, payload stdjson.RawMessage) {
			var k c16Case
			if err := stdjson.Unmarshal(payload, &k); err != nil {
				fmt.Println("bad payload:", err)
				return
			}
			debug.SetGCPercent(-1)
			debug.SetMaxStack(64 << 20)
			runtime.GOMAXPROCS(1)
			ref := map[string]int64{}
			rk := c16Case{Shape: k.Shape, Unit: k.Unit, Prefix: k.Prefix, Tail: k.Tail, Depth: 8192, Closed: true, Mode: "limit0", Primer: "none"}
			ref[k.refKey()] = c16Exec(rk, c16Doc(rk)).incKB
			if ref[k.refKey()] < 64 {
				ref[k.refKey()] = 64
			}
			c16Judge(c, k, ref, nil)
		},
		Finish: func(a *fw.Agg) error {
			if a.Counters["bombs_deeper_than_2x_cap"] < 100 {
				return fmt.Errorf("only %d bombs deeper than twice the cap were run", a.Counters["bombs_deeper_than_2x_cap"])
			}
			if a.Maxes["reference_stack_increment_KiB_depth_8192"] < 64 {
				return fmt.Errorf("stack monitor observed no stack growth at depth 8192")
			}
			return nil
		},
	})
}
