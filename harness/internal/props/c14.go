package props

import (
	stdjson "encoding/json"
	"fmt"
	"math/rand"
	"strings"
	"sync"

	"github.com/gabriel-vasile/mimetype"

	"verifharness/internal/fw"
	"verifharness/internal/lib"
)

// C14 — extensions take priority, stay inside their parent, disturb nothing else.
//
// Oracle: the independent walk model with the harness's own record of the
// extensions (each inserted in front of the siblings present at registration).
// After a history H:
//   (a) Detect(x) chain == model chain                                   (priority, containment, ancestors)
//   (b) every extension detector rejects x  =>  result == baseline before H (non-interference)
//   (c) Lookup(name) / Lookup(alias) non-nil, right fields, right parent
//   (d) values returned before later Extend calls keep String/Extension/Parent chain
// The library is NOT instrumented here (C03 covers the instrumented walk).

type c14Payload struct {
	Ops   []extOp `json:"ext_history"`
	In    []byte  `json:"in"`
	Limit uint32  `json:"limit"`
	What  string  `json:"what"`
	InQ   string  `json:"in_quoted"`
	Fresh bool    `json:"fresh_process"`
}

type c14Early struct {
	m  *mimetype.MIME
	ch string
}

func c14Inputs(c *fw.Ctx, seeds [][]byte, ops []extOp) [][]byte {
	r := c.Rand
	var ins [][]byte
	for i := 0; i < 70; i++ {
		s := seeds[r.Intn(len(seeds))]
		if len(s) > 3500 {
			s = s[:3500]
		}
		ins = append(ins, s)
	}
	// inputs built to satisfy extension predicates (and often several at once)
	for _, op := range ops {
		s := seeds[r.Intn(len(seeds))]
		if len(s) > 600 {
			s = s[:600]
		}
		switch op.Pred.Kind {
		case "prefix":
			ins = append(ins, append(append([]byte{}, op.Pred.Arg...), s...))
			ins = append(ins, append([]byte{}, op.Pred.Arg...))
		case "contains":
			x := append([]byte{}, s...)
			x = append(x, op.Pred.Arg...)
			ins = append(ins, x, append(append([]byte("VERIF"), op.Pred.Arg...), s...))
		case "empty":
			ins = append(ins, []byte{})
		case "lengt":
			ins = append(ins, make([]byte, 0), []byte(strings.Repeat("a", op.Pred.N+1)), []byte(strings.Repeat("a", op.Pred.N)))
		}
	}
	ins = append(ins, []byte("VERIF probe"), []byte("VERIF{\"a\":1}"), []byte{}, []byte("VERIFPK\x03\x04"))
	return ins
}

// c14Family turns 2-3 operations of a history into a family registered from a table: every
// member is given the SAME slice, which lists the names of all members and one more name.
func c14Family(r *rand.Rand, ops []extOp) {
	var own []int
	for i, op := range ops {
		if strings.Contains(op.MIME, "x-verif") {
			own = append(own, i)
		}
	}
	if len(own) < 2 || r.Intn(5) != 0 {
		return
	}
	r.Shuffle(len(own), func(i, j int) { own[i], own[j] = own[j], own[i] })
	own = own[:2+r.Intn(minInt(2, len(own)-1))]
	var fam []string
	for _, i := range own {
		fam = append(fam, ops[i].MIME)
	}
	for _, i := range own {
		fam = append(fam, ops[i].Aliases...) // names later operations may already refer to stay registered
	}
	fam = append(fam, ops[own[0]].MIME+"-family")
	for _, i := range own {
		ops[i].Aliases = fam
	}
}

func c14CheckHistory(c *fw.Ctx, ops []extOp, fresh bool, useReset bool) {
	// alias lists with the same content are ONE slice, the way a caller that registers a family
	// of formats from a table passes it (this also restores the sharing when a history is replayed)
	// The library is handed libLists[i]; ops[i].Aliases (what the caller asked for) never reaches it
	// and is what the model and the Lookup checks go by.
	sharedLists := map[string][]string{}
	libLists := make([][]string, len(ops))
	for i := range ops {
		libLists[i] = append([]string(nil), ops[i].Aliases...)
		if len(ops[i].Aliases) >= 2 {
			k := strings.Join(ops[i].Aliases, "\x00")
			if sl, ok := sharedLists[k]; ok {
				libLists[i] = sl
				c.Count("extend_calls_given_a_shared_alias_list", 1)
			} else {
				sharedLists[k] = libLists[i]
			}
		}
	}
	base := baseTree()
	seeds := lib.Seeds()
	if useReset {
		mimetype.VerifResetTree()
	}
	model := lib.Snapshot()
	ins := c14Inputs(c, seeds, ops)
	// baseline before H (limit 3072)
	baseline := make([]string, len(ins))
	for i, x := range ins {
		baseline[i] = lib.ChainOf(lib.Detect(x, 3072)).String()
	}
	var extIDs []int
	var early []c14Early
	mk := func(x []byte, l uint32, what string) any {
		return c14Payload{Ops: ops, In: append([]byte(nil), x...), Limit: l, What: what, InQ: fw.Quote(x, 100), Fresh: fresh}
	}
	for oi, op := range ops {
		c.Trace(func() (string, any) { return fmt.Sprintf("history-op-%d", oi), mk(nil, 0, "extend") })
		// names that are not registered yet are not found (and asking must not hide them later)
		for _, nm := range append([]string{op.MIME}, op.Aliases...) {
			if model.Lookup(nm) < 0 && mimetype.Lookup(nm) != nil {
				c.Violate("lookup", "lookup-before-registration", fmt.Sprintf("Lookup(%q) found a format before any format of that name was registered", nm), mk([]byte(nm), 0, "lookup-before"))
			}
		}
		id, lost := -1, ""
		func() {
			defer func() {
				if e := recover(); e != nil {
					if ln, ok := e.(lostName); ok {
						lost = ln.name
						return
					}
					panic(e)
				}
			}()
			id = applyOpList(op, libLists[oi], model, base)
		}()
		if lost != "" {
			c.Violate("lookup", "lookup-of-registered-parent", fmt.Sprintf("Lookup(%q) returned nil although a format of that name is registered (it was about to be extended)", lost), mk([]byte(lost), 0, "lookup-parent"))
			return
		}
		for i := range op.Aliases {
			if libLists[oi][i] != op.Aliases[i] {
				// evidence only: what the property promises is decided by the Lookup and detection checks below
				c.Count("extend_rewrote_the_callers_alias_list_seen_not_judged", 1)
				break
			}
		}
		extIDs = append(extIDs, id)
		// keep a value returned now; it must not change when the history goes on
		x := ins[c.Rand.Intn(len(ins))]
		m := lib.Detect(x, 3072)
		early = append(early, c14Early{m, lib.ChainOf(m).String()})
		if lk := mimetype.Lookup(op.MIME); lk != nil {
			early = append(early, c14Early{lk, lib.ChainOf(lk).String()})
		}
	}
	// Extend on detection results (detached copies): must leave the tree as the model has it
	if c.Rand.Intn(2) == 0 {
		extendOnResults(c.Rand, seeds, 1+c.Rand.Intn(4))
		c.Count("extend_calls_on_detection_results", 1)
	}
	c.Count("histories", 1)
	c.Count("extensions_registered", int64(len(ops)))
	hkey := func(x []byte, l uint32) string {
		return fw.InputKey(x, l, fmt.Sprintf("Detect/after-%d-extensions", len(ops)))
	}
	shape := make([]string, 0, len(ops))
	for _, op := range ops {
		p := "builtin"
		if op.Parent == "" {
			p = "root"
		} else if strings.Contains(op.Parent, "verif") {
			p = "ext"
		}
		shape = append(shape, p+":"+op.Pred.Kind)
	}
	for i, x := range ins {
		for _, l := range []uint32{3072, 0, uint32(c.Rand.Intn(len(x) + 2))} {
			// entry points: mostly Detect, sometimes an oddly chunking reader, rarely a file
			// (an extension is in force for every entry point, also for the empty input)
			entry := pickEntry(c)
			if forcedEntry == "" && len(x) == 0 && c.Rand.Intn(3) == 0 {
				entry = []string{"DetectReaderChunked", "DetectFile"}[c.Rand.Intn(2)]
			}
			key := hkey(x, l) + "/" + entry
			c.Trace(func() (string, any) { return key, mk(x, l, "detect:"+entry) })
			var ch lib.Chain
			ok := c.Guard(key, func() any { return mk(x, l, "panic:"+entry) }, func() {
				ch = lib.ChainOf(detectEntry(x, l, entry))
			})
			c.Eval(1)
			if !ok {
				continue
			}
			h := lib.Header(x, l)
			path := model.Walk(h, l)
			want := model.ChainOfID(path[len(path)-1])
			if ch.Bare() != want.Bare() {
				c.Violate("extended-tree-mismatch", key, fmt.Sprintf("after %d Extend calls %s gives %s, the first-match walk over the enlarged tree gives %s; input %s limit %d", len(ops), entry, ch, want, fw.Quote(x, 80), l), mk(x, l, "model:"+entry))
				continue
			}
			underExt := false
			for _, pid := range path {
				for _, e := range extIDs {
					if pid == e {
						underExt = true
					}
				}
			}
			if underExt {
				c.Count("detections_classified_under_an_extension", 1)
				c.Distinct(fmt.Sprintf("%s|depth=%d|under-ext", strings.Join(shape, ","), len(path)))
			}
			if l == 3072 {
				rej := true
				for _, e := range extIDs {
					if model.Nodes[e].Det(h, l) {
						rej = false
						break
					}
				}
				if rej {
					c.Count("noninterference_cases", 1)
					if ch.String() != baseline[i] {
						c.Violate("interference", key, fmt.Sprintf("every extension detector rejects the input, yet the result changed from %s to %s; input %s", baseline[i], ch, fw.Quote(x, 80)), mk(x, l, "interference"))
					}
				}
			}
		}
	}
	// (c) Lookup: the model's depth-first name search says which format must be found
	for _, op := range ops {
		names := append([]string{op.MIME}, op.Aliases...)
		for _, nm := range names {
			lk := mimetype.Lookup(nm)
			c.Eval(1)
			c.Count("lookups_checked", 1)
			mid := model.Lookup(nm)
			if mid < 0 {
				panic("verif harness: model lost the name " + nm)
			}
			mn := model.Nodes[mid]
			wantParent := ""
			if mn.Parent >= 0 {
				wantParent = model.ChainOfID(mn.Parent).String()
			}
			problem := ""
			switch {
			case lk == nil:
				problem = "Lookup returned nil"
			case lk.String() != mn.MIME || lk.Extension() != mn.Ext:
				problem = fmt.Sprintf("Lookup returned %s|%s, want %s|%s", lk.String(), lk.Extension(), mn.MIME, mn.Ext)
			case mn.Parent < 0 && lk.Parent() != nil:
				problem = "Lookup returned a format with a parent for the root's name"
			case mn.Parent >= 0 && (lk.Parent() == nil || lib.ChainOf(lk.Parent()).String() != wantParent):
				problem = fmt.Sprintf("parent chain %s, want %s", lib.ChainOf(lk.Parent()), wantParent)
			default:
				for _, a := range mn.Aliases {
					if !lk.Is(a) {
						problem = "Is(" + a + ") is false"
					}
				}
				if mn.MIME == strings.ToLower(mn.MIME) && !lk.Is(mn.MIME) {
					problem = "Is(own name) is false"
				}
			}
			if problem != "" {
				c.Violate("lookup", fmt.Sprintf("lookup name=%s after-%d-extensions parent=%q", nm, len(ops), op.Parent), fmt.Sprintf("extension %s (aliases %v, parent %q): %s", op.MIME, op.Aliases, op.Parent, problem), mk([]byte(nm), 0, "lookup"))
			}
		}
	}
	// (d) earlier values unchanged
	for _, e := range early {
		c.Count("earlier_values_rechecked", 1)
		if now := lib.ChainOf(e.m).String(); now != e.ch {
			c.Violate("earlier-value-changed", "earlier-value "+e.ch, fmt.Sprintf("a value returned before later Extend calls changed from %s to %s", e.ch, now), mk(nil, 0, "earlier"))
		}
	}
	if c.WantSample() && len(ops) > 1 && c.Rand.Intn(50) == 0 {
		c.Sample(map[string]any{"history": ops, "inputs_detected": len(ins) * 3})
	}
}

func c14Run(c *fw.Ctx, b fw.Batch) {
	r := c.Rand
	base := baseTree()
	seeds := lib.Seeds()
	switch b.Kind {
	case "histories":
		for h := 0; h < b.N; h++ {
			ops := genHistory(r, base, 1+r.Intn(12), seeds, true)
			c14Family(r, ops)
			c14CheckHistory(c, ops, false, true)
		}
		mimetype.VerifResetTree()
	case "fresh":
		// exactly one history in a fresh process, the reset hook is never used
		ops := genHistory(r, base, 1+r.Intn(12), seeds, true)
		c14Family(r, ops)
		c14CheckHistory(c, ops, true, false)
	case "concurrent-registration":
		// several goroutines register extensions on the same parents; afterwards
		// every registration must be present (sequential check of the final tree)
		for h := 0; h < b.N; h++ {
			mimetype.VerifResetTree()
			parents := []string{"", "application/pdf", "text/plain", "application/zip"}
			var wg sync.WaitGroup
			var all []extOp
			per := 6
			gate := make(chan struct{})
			for g := 0; g < 8; g++ {
				var mine []extOp
				for k := 0; k < per; k++ {
					extCounter++
					mine = append(mine, extOp{Parent: parents[(g+k)%len(parents)], Pred: predSpec{Kind: "prefix", Arg: []byte("VERIF-CONC")}, MIME: fmt.Sprintf("application/x-verif-conc-%d", extCounter), Ext: ".vc", Aliases: []string{fmt.Sprintf("application/x-verif-conc-alias-%d", extCounter)}})
				}
				all = append(all, mine...)
				wg.Add(1)
				go func(mine []extOp) {
					defer wg.Done()
					<-gate
					for _, op := range mine {
						det := op.Pred.fn(base)
						if op.Parent == "" {
							mimetype.Extend(det, op.MIME, op.Ext, op.Aliases...)
						} else {
							mimetype.Lookup(op.Parent).Extend(det, op.MIME, op.Ext, op.Aliases...)
						}
					}
				}(mine)
			}
			close(gate)
			wg.Wait()
			c.Count("concurrent_registration_rounds", 1)
			for _, op := range all {
				c.Eval(1)
				for _, nm := range append([]string{op.MIME}, op.Aliases...) {
					if lk := mimetype.Lookup(nm); lk == nil || lk.String() != op.MIME {
						c.Violate("registration-lost", "concurrent-registration "+op.Parent, fmt.Sprintf("extension %s registered on %q by one of 8 goroutines (Extend returned) is not found by Lookup(%s) afterwards", op.MIME, op.Parent, nm), c14Payload{Ops: []extOp{op}, What: "concurrent-registration"})
					}
				}
			}
			snap := lib.Snapshot()
			n := 0
			for _, nd := range snap.Nodes {
				if strings.HasPrefix(nd.MIME, "application/x-verif-conc-") {
					n++
				}
			}
			if n != len(all) {
				c.Violate("registration-lost", "concurrent-registration count", fmt.Sprintf("%d extensions were registered concurrently but the tree holds %d of them", len(all), n), c14Payload{What: "concurrent-registration"})
			}
			c.Distinct(fmt.Sprintf("conc|%d|%d", h%50, n))
		}
		mimetype.VerifResetTree()
	}
}

func init() {
	fw.Register(&fw.Prop{
		ID:    "C14",
		Level: "exploration",
		Rule: "random histories of 1-12 Extend calls (package level; on built-ins at every depth looked up by name or alias; on earlier extensions, forming chains and siblings) with predicates from a family (always true/false, prefix, contains, length-/limit-dependent, a copy of a built-in sibling's detector, accepts-empty), names partly with upper-case letters and sometimes re-used for a second format, 0-2 aliases (in one history in five 2-3 extensions are a family registered from a table: every member's Extend call is handed the SAME slice listing all members' names and aliases and a family name; model and checks go by a copy the library never sees), each name looked up before and after its registration; after each history ~80 inputs (seeds + inputs built to satisfy one or several extension predicates + the empty input) x 3 limits are compared with the independent walk model, with the pre-history baseline when every extension rejects, Lookup is checked for every name and alias, and values returned mid-history are re-read at the end. Thousands of histories per child use the reset hook; a sample runs one history per fresh process without it; rounds of 8 goroutines registering concurrently are checked for lost registrations. " +
			"non-trivial = a detection classified under an extension (measured with the model); distinct = distinct (history shape: attach-point class + predicate kind per step, depth of the reported path).",
		Assumptions: []string{
			"the model inserts each extension in front of the siblings present at registration time (the statement's rule)",
			"extension detectors are shared between library and model; only the walk/bookkeeping is independent",
		},
		Plan: func(tier string, seed int64) []fw.Batch {
			n, nf, nc := 800, 32, 40
			if tier == "thorough" {
				n, nf, nc = 60000, 160, 2000
			}
			var bs []fw.Batch
			bs = append(bs, batches("histories", 12, n, 3000)...)
			bs = append(bs, batches("fresh", nf, 0, 600)...)
			bs = append(bs, batches("concurrent-registration", 4, nc, 3000)...)
			return bs
		},
		Run: c14Run,
		Replay: func(c *fw.Ctx, payload stdjson.RawMessage) {
			var p c14Payload
			if err := stdjson.Unmarshal(payload, &p); err != nil {
				fmt.Println("bad payload:", err)
				return
			}
			if p.What == "concurrent-registration" {
				c14Run(c, fw.Batch{Kind: "concurrent-registration", N: 50})
				return
			}
			if i := strings.Index(p.What, ":"); i >= 0 {
				forcedEntry = p.What[i+1:]
			}
			c14CheckHistory(c, p.Ops, p.Fresh, true)
		},
		Finish: func(a *fw.Agg) error {
			if a.Counters["detections_classified_under_an_extension"] < 500 || a.Counters["noninterference_cases"] < 500 || a.Counters["lookups_checked"] < 200 {
				return fmt.Errorf("too few informative observations (under extension %d, non-interference %d, lookups %d)", a.Counters["detections_classified_under_an_extension"], a.Counters["noninterference_cases"], a.Counters["lookups_checked"])
			}
			return nil
		},
	})
}
