package props

import (
	"bytes"
	stdjson "encoding/json"
	"fmt"
	"mime"
	"unicode/utf8"

	"github.com/gabriel-vasile/mimetype"

	"verifharness/internal/fw"
	"verifharness/internal/lib"
)

// C11 — sniffed charset is truthful for undeclared text.
//
// Oracle for a non-empty header h without binary data bytes whose result leaf
// is text/plain (and for FromPlain called directly):
//   BOM            => exactly that BOM's charset (FF FE 00 00: utf-32le or utf-16le)
//   TV(h) := h is a prefix of some valid UTF-8 string (explicit lead/continuation table)
//   A(h)  := every byte in {09,0A,0C,0D,1B,20..7E}
//   N(h)  := h contains a complete valid multi-byte sequence
//   (1) charset=utf-8 => TV(h)
//   (2) TV(h) and (A(h) or N(h)) => charset=utf-8
//   (3) charset in {windows-1252, iso-8859-1} => (windows-1252 <=> some byte in 80..9F)

var c11Alphabet = []byte{'a', ' ', '\n', 0x1B, 0x7F, 0x80, 0x85, 0x8F, 0x90, 0x9F, 0xA0, 0xA9, 0xBD, 0xBF, 0xC0, 0xC2, 0xC3, 0xDF, 0xE0, 0xE2, 0xED, 0xEF, 0xF0, 0xF4, 0xF5, 0xFF, 0x82}

// utf8Scan: independent UTF-8 prefix validator. Returns (prefixOK, hasCompleteMultibyte).
func utf8Scan(h []byte) (bool, bool) {
	i, n := 0, len(h)
	multi := false
	for i < n {
		b := h[i]
		if b < 0x80 {
			i++
			continue
		}
		var need int
		lo, hi := byte(0x80), byte(0xBF)
		switch {
		case b >= 0xC2 && b <= 0xDF:
			need = 1
		case b == 0xE0:
			need, lo = 2, 0xA0
		case b >= 0xE1 && b <= 0xEC, b == 0xEE, b == 0xEF:
			need = 2
		case b == 0xED:
			need, hi = 2, 0x9F
		case b == 0xF0:
			need, lo = 3, 0x90
		case b >= 0xF1 && b <= 0xF3:
			need = 3
		case b == 0xF4:
			need, hi = 3, 0x8F
		default:
			return false, multi
		}
		for k := 1; k <= need; k++ {
			if i+k >= n {
				return true, multi // cut off at the very end: viable prefix
			}
			c := h[i+k]
			l, u := byte(0x80), byte(0xBF)
			if k == 1 {
				l, u = lo, hi
			}
			if c < l || c > u {
				return false, multi
			}
		}
		multi = true
		i += need + 1
	}
	return true, multi
}

func c11A(h []byte) bool {
	for _, b := range h {
		if !(b == 0x09 || b == 0x0A || b == 0x0C || b == 0x0D || b == 0x1B || (b >= 0x20 && b <= 0x7E)) {
			return false
		}
	}
	return true
}

func c11BOM(h []byte) []string {
	has := func(p ...byte) bool {
		if len(h) < len(p) {
			return false
		}
		for i := range p {
			if h[i] != p[i] {
				return false
			}
		}
		return true
	}
	switch {
	case has(0xEF, 0xBB, 0xBF):
		return []string{"utf-8"}
	case has(0x00, 0x00, 0xFE, 0xFF):
		return []string{"utf-32be"}
	case has(0xFF, 0xFE, 0x00, 0x00):
		return []string{"utf-32le", "utf-16le"}
	case has(0xFE, 0xFF):
		return []string{"utf-16be"}
	case has(0xFF, 0xFE):
		return []string{"utf-16le"}
	}
	return nil
}

// c11Check judges a reported charset ("" = none) for header h. Returns "" if fine.
func c11Check(h []byte, cs string) (string, string) {
	if bom := c11BOM(h); bom != nil {
		for _, b := range bom {
			if cs == b {
				return "", "bom"
			}
		}
		return fmt.Sprintf("header starts with a byte-order mark for %v but charset %q was reported", bom, cs), "bom"
	}
	tv, n := utf8Scan(h)
	// oracle self-check against the standard library on complete input
	if utf8.Valid(h) && !tv {
		panic(fmt.Sprintf("verif harness: utf8Scan rejects valid UTF-8 %q", h))
	}
	a := c11A(h)
	class := fmt.Sprintf("tv=%v,a=%v,n=%v", tv, a, n)
	if cs == "utf-8" && !tv {
		return "charset=utf-8 reported but the examined bytes are not valid UTF-8 (not even up to a sequence cut off at the end)", class
	}
	if tv && (a || n) && cs != "utf-8" {
		return fmt.Sprintf("examined bytes are valid UTF-8 (%s) but charset %q was reported instead of utf-8", class, cs), class
	}
	if cs == "windows-1252" || cs == "iso-8859-1" {
		c1 := false
		for _, b := range h {
			if b >= 0x80 && b <= 0x9F {
				c1 = true
			}
		}
		if (cs == "windows-1252") != c1 {
			return fmt.Sprintf("%s reported but a byte in 0x80-0x9F occurs: %v", cs, c1), class
		}
	}
	return "", class
}

// c11Tail classifies the last two bytes and the length (which rune is last,
// where the input ends inside it).
func c11Tail(h []byte) string {
	cl := func(b byte) byte {
		switch {
		case b < 0x80:
			return 'a'
		case b < 0xC0:
			return 'c'
		case b < 0xE0:
			return '2'
		case b < 0xF0:
			return '3'
		case b < 0xF8:
			return '4'
		}
		return 'x'
	}
	s := []byte{'-', '-', '-'}
	for i := 0; i < 3 && i < len(h); i++ {
		s[2-i] = cl(h[len(h)-1-i])
	}
	return fmt.Sprintf("%s/%d", s, minInt(len(h), 6))
}

var fromPlain func([]byte) string

// undeclaredMarkup is set while HTML / XML documents WITHOUT any encoding
// declaration are judged: they are "text without a declared encoding" too.
var undeclaredMarkup bool

func c11JudgeDetect(c *fw.Ctx, kind string, x []byte, limit uint32) {
	entry := pickEntry(c)
	h := lib.Header(x, limit)
	if len(h) == 0 {
		return
	}
	bin := false
	for _, b := range h {
		if c07IsBinByte(b) {
			bin = true
		}
	}
	if bin && c11BOM(h) == nil {
		return
	}
	key := fw.InputKey(x, limit, entry)
	c.Trace(func() (string, any) { return key, fw.MkInCase(kind, x, limit, entry, "") })
	var m *mimetype.MIME
	ok := c.Guard(key, func() any { return fw.MkInCase(kind, x, limit, entry, "panic") }, func() {
		m = detectEntry(x, limit, entry)
	})
	c.Eval(1)
	if !ok {
		return
	}
	anomalyC02(c, m, nil)
	mt, params, err := mime.ParseMediaType(m.String())
	if err != nil || (mt != "text/plain" && !(undeclaredMarkup && (mt == "text/html" || mt == "text/xml"))) {
		c.Count("detect_result_not_text_plain_skipped", 1)
		return
	}
	if mt != "text/plain" {
		c.Count("undeclared_markup_results_judged", 1)
	}
	cs := params["charset"]
	c.Count("charset_"+cs, 1)
	why, class := c11Check(h, cs)
	c.Distinct("det|" + class + "|" + cs + "|" + c11Tail(h))
	if why != "" {
		c.Violate("untruthful-charset", key, fmt.Sprintf("%s; result %s; input %s limit %d", why, m.String(), fw.Quote(x, 80), limit),
			fw.MkInCase(kind, x, limit, entry, why))
	}
	if c.WantSample() && len(h) > 2 && c.Rand.Intn(30000) == 0 {
		c.Sample(map[string]any{"header": fw.Quote(h, 60), "limit": limit, "reported_charset": cs, "oracle_class": class})
	}
}

func c11JudgePlain(c *fw.Ctx, kind string, h []byte) {
	if fromPlain == nil {
		fromPlain = mimetype.VerifFromPlain
	}
	if len(h) == 0 {
		return
	}
	key := fw.InputKey(h, 0, "charset.FromPlain")
	c.Trace(func() (string, any) { return key, fw.MkInCase(kind, h, 0, "charset.FromPlain", "") })
	var cs string
	ok := c.Guard(key, func() any { return fw.MkInCase(kind, h, 0, "charset.FromPlain", "panic") }, func() {
		cs = fromPlain(h)
	})
	c.Eval(1)
	if !ok {
		return
	}
	why, class := c11Check(h, cs)
	c.Distinct("plain|" + class + "|" + cs + "|" + c11Tail(h))
	if why != "" {
		c.Violate("untruthful-charset", key, fmt.Sprintf("%s; FromPlain(%s)", why, fw.Quote(h, 80)), fw.MkInCase(kind, h, 0, "charset.FromPlain", why))
	}
}

func c11Enum(n int, first int, f func([]byte)) {
	idx := make([]int, n)
	idx[0] = first
	buf := make([]byte, n)
	for {
		for i, k := range idx {
			buf[i] = c11Alphabet[k]
		}
		f(buf)
		k := n - 1
		for k >= 1 {
			idx[k]++
			if idx[k] < len(c11Alphabet) {
				break
			}
			idx[k] = 0
			k--
		}
		if k < 1 {
			return
		}
	}
}

var c11Texts = []string{
	"Voilà un café crème, déjà vu — naïve façade, Ærøskøbing, Zürich, €100, 日本語のテキスト, emoji 😀🎉 done.\n",
	"Lossy � replacement � chars and 𝔘𝔫𝔦𝔠𝔬𝔡𝔢 plus ASCII tail\n",
	"plain ascii only text with\ttabs and \x1b[0m escapes and form\x0cfeed\r\n",
	"caf\xE9 d\xE9j\xE0 vu \xA9 2024 na\xEFve \xFC\xF6\xE4 latin-1 only\n",
	"Wait\x85 \x93quoted\x94 \x96 windows-1252 punctuation \x80 100\n",
	"mixed: valid é then invalid \xFF then é again\n",
	"\xC3\xA9\xC3\xA9\xC3\xA9 \xE2\x82\xAC \xF0\x9F\x98\x80",
	"trailing DEL \x7f and text é",
}

func c11Run(c *fw.Ctx, b fw.Batch) {
	switch b.Kind {
	case "enum-detect":
		c11Enum(b.N, b.Idx, func(x []byte) {
			y := append([]byte(nil), x...)
			c11JudgeDetect(c, "enum", y, 0)
			if len(y) > 1 {
				c11JudgeDetect(c, "enum-cut", append(y, 'z', 0xC3), uint32(len(y)))
			}
		})
	case "enum-plain":
		c11Enum(b.N, b.Idx, func(x []byte) { c11JudgePlain(c, "enum", x) })
	case "texts":
		for ti, t := range c11Texts {
			x := []byte(t)
			for L := 1; L <= len(x)+1; L++ {
				c11JudgeDetect(c, fmt.Sprintf("text-%d", ti), x, uint32(L))
				c11JudgePlain(c, fmt.Sprintf("text-%d", ti), lib.Header(x, uint32(L)))
			}
			// every rotation start as well (which rune is first / last)
			for s := 1; s < len(x); s++ {
				c11JudgePlain(c, fmt.Sprintf("text-%d-suffix", ti), x[s:])
			}
		}
		// ASCII texts with every escape sequence ESC + two printable characters (ISO 2022 style
		// designations are still "ASCII text characters only": utf-8)
		for a := byte(0x20); a < 0x7F; a++ {
			for bch := byte(0x20); bch < 0x7F; bch += 1 {
				if (int(a)+int(bch))%7 != 0 && !(a == '$' || a == '(' || a == ')' || a == '%' || a == '-' || a == '.') {
					continue
				}
				x := []byte("plain words \x1b" + string([]byte{a, bch}) + " more plain words \x1b(B end\n")
				c11JudgeDetect(c, "esc-seq", x, 0)
				c11JudgePlain(c, "esc-seq", x)
			}
		}
		// long texts whose first offending byte comes late (beyond 1 KiB, around the default limit)
		bases := [][]byte{bytes.Repeat([]byte("plain ascii words "), 4500), bytes.Repeat([]byte("d\xc3\xa9j\xc3\xa0 vu \xe2\x82\xac "), 4500)}
		// and beyond 1 MiB / 3 MiB (limit 0 and 4 MiB)
		for _, base := range [][]byte{bytes.Repeat([]byte("plain ascii words "), 200000), bytes.Repeat([]byte("d\xc3\xa9j\xc3\xa0 vu \xe2\x82\xac "), 200000)} {
			for _, off := range []int{1<<20 - 1, 1 << 20, 1<<20 + 5, 5<<19 + 1} {
				if off >= len(base) {
					continue
				}
				for off > 0 && base[off]&0xC0 == 0x80 {
					off-- // not inside a multi-byte character
				}
				for _, lt := range [][]byte{{0xE9}, {0x85}, {0xFF}} {
					x := append(append(append([]byte{}, base[:off]...), lt...), " tail text"...)
					for _, L := range []uint32{0, 1 << 22, uint32(len(x))} {
						c11JudgeDetect(c, "very-late-byte", x, L)
					}
				}
			}
		}
		lates := [][]byte{{0xE9}, {0x85}, {0xFF}, {0xC3}, {0xC3, 0x28}, {0xE2, 0x82}, {0xA9, 0xA9}, {0x93, 'q', 0x94}, {0xE9, ' ', 0x85}}
		for _, base := range bases {
			for _, off := range []int{100, 1000, 1023, 1024, 1025, 1030, 2000, 3000, 3069, 3070, 3071, 3072, 4000, 6000, 16384, 65520, 65536, 65538, 70000} {
				for _, lt := range lates {
					if off > len(base) {
						continue
					}
					x := append(append(append([]byte{}, base[:off]...), lt...), " tail text"...)
					for _, L := range []uint32{0, 3072, uint32(len(x)), uint32(off + len(lt)), uint32(off + 1), uint32(off), 8192, 1 << 20} {
						c11JudgeDetect(c, "late-byte", x, L)
					}
				}
			}
		}
		// HTML / XML without any declared encoding: the same rules apply to the sniffed charset
		undeclaredMarkup = true
		for _, head := range []string{"<html><body>", "<!DOCTYPE html><p>", "<?xml version=\"1.0\"?><doc>", "<?xml version=\"1.0\" standalone=\"yes\"?>\n<a>", "<?xml version='1.0'?><r>"} {
			for ti, t := range c11Texts {
				x := append([]byte(head), t...)
				for L := len(head) + 1; L <= len(x)+1; L++ {
					c11JudgeDetect(c, fmt.Sprintf("undeclared-markup-%d", ti), x, uint32(L))
				}
			}
		}
		undeclaredMarkup = false
		// BOMs followed by anything
		boms := [][]byte{{0xEF, 0xBB, 0xBF}, {0xFE, 0xFF}, {0xFF, 0xFE}, {0x00, 0x00, 0xFE, 0xFF}, {0xFF, 0xFE, 0x00, 0x00}}
		for _, bom := range boms {
			for _, tl := range [][]byte{{}, []byte("abc"), {0x00, 0x41}, {0xFF, 0xFF}, []byte("caf\xE9"), []byte("é"), {0x00}, {0x00, 0x00}} {
				x := append(append([]byte{}, bom...), tl...)
				for L := 1; L <= len(x)+1; L++ {
					c11JudgeDetect(c, "bom", x, uint32(L))
				}
				c11JudgePlain(c, "bom", x)
			}
		}
		// random strings over the alphabet, longer than the enumeration bound
		for i := 0; i < b.N; i++ {
			n := 5 + c.Rand.Intn(20)
			x := make([]byte, n)
			for j := range x {
				if c.Rand.Intn(3) == 0 {
					x[j] = c11Alphabet[c.Rand.Intn(len(c11Alphabet))]
				} else {
					x[j] = byte('a' + c.Rand.Intn(26))
				}
			}
			if c.Rand.Intn(2) == 0 { // make it mostly valid UTF-8 with a hostile tail
				x = append([]byte("é ok "), x[:c.Rand.Intn(4)+1]...)
			}
			c11JudgeDetect(c, "random", x, uint32(c.Rand.Intn(len(x)+2)))
			c11JudgePlain(c, "random", x)
		}
	}
}

func init() {
	fw.Register(&fw.Prop{
		ID:    "C11",
		Level: "exploration",
		Rule: "bounded-exhaustive over a 27-symbol byte-class alphabet (ASCII letter, space, LF, ESC, DEL, C1 bytes 80 85 8F 90 9F, continuation bytes A0 A9 BD BF 82, every UTF-8 lead class C0 C2 C3 DF E0 E2 ED EF F0 F4 F5, FF): ALL strings of length <= 4 through Detect (whole, and cut by the limit with a tail behind it) and ALL strings of length <= 5 (quick) / 6 (thorough) through charset.FromPlain; plus real UTF-8 / Latin-1 / Windows-1252 paragraphs (incl. U+FFFD, 4-byte runes) cut at every limit and started at every offset, long ASCII / UTF-8 texts whose first Latin-1 / C1 / invalid / cut byte comes late (offsets 100 … 70000, around 1024, 3072 and 65536, limits up to 1 MiB and 0), HTML / XML documents without any encoding declaration (the same rules apply to their sniffed charset), BOMs followed by arbitrary bytes, random longer strings. " +
			"every case is non-trivial (the oracle always has a claim to check); distinct = distinct (entry, TV, A, N / BOM class, reported charset) tuples — coarse by design; the enumerated strings themselves are all different.",
		Assumptions: []string{
			"utf8Scan is an explicit table-driven prefix validator; unicode/utf8.Valid is used only as a self-check of it",
			"the empty input is not asserted (the statement is ambiguous there)",
			"ASCII text characters = 09 0A 0C 0D 1B 20-7E",
		},
		Exhaustive: func(tier string) bool { return true },
		Plan: func(tier string, seed int64) []fw.Batch {
			var bs []fw.Batch
			na := len(c11Alphabet)
			for n := 1; n <= 4; n++ {
				for f := 0; f < na; f++ {
					bs = append(bs, fw.Batch{Name: fmt.Sprintf("enum-detect-len%d-%d", n, f), Kind: "enum-detect", N: n, Idx: f, Of: na, TimeoutS: 1800})
				}
			}
			maxPlain := 5
			if tier == "thorough" {
				maxPlain = 6
			}
			for n := 1; n <= maxPlain; n++ {
				for f := 0; f < na; f++ {
					bs = append(bs, fw.Batch{Name: fmt.Sprintf("enum-plain-len%d-%d", n, f), Kind: "enum-plain", N: n, Idx: f, Of: na, TimeoutS: 1800})
				}
			}
			nr := 20000
			if tier == "thorough" {
				nr = 1000000
			}
			bs = append(bs, batches("texts", 2, nr, 1800)...)
			for i, j := 0, len(bs)-1; i < j; i, j = i+1, j-1 {
				bs[i], bs[j] = bs[j], bs[i]
			}
			return bs
		},
		Run: c11Run,
		Replay: func(c *fw.Ctx, payload stdjson.RawMessage) {
			ic, err := replayInCase(payload)
			if err != nil {
				fmt.Println("bad payload:", err)
				return
			}
			if ic.Entry != "" && ic.Entry != "charset.FromPlain" {
				forcedEntry = ic.Entry
			}
			if ic.Entry == "charset.FromPlain" {
				c11JudgePlain(c, ic.Kind, ic.In)
			} else {
				c11JudgeDetect(c, ic.Kind, ic.In, ic.Limit)
			}
		},
		Finish: func(a *fw.Agg) error {
			for _, k := range []string{"charset_utf-8", "charset_iso-8859-1", "charset_windows-1252", "charset_"} {
				if a.Counters[k] < 100 {
					return fmt.Errorf("outcome %q observed only %d times", k, a.Counters[k])
				}
			}
			return nil
		},
	})
}
