package props

import (
	"archive/zip"
	"bytes"
	"compress/flate"
	"encoding/binary"
	stdjson "encoding/json"
	"fmt"
	"hash/crc32"
	"math/rand"
	"strings"
	"time"

	"verifharness/internal/fw"
	"verifharness/internal/lib"
)

// C19 — zip-based formats are identified from their leading entry names.
//
// The archive is written with archive/zip and READ BACK with zip.Reader; the
// expectation is computed from the entry-name list the reader reports:
//   P1 first entry "[Content_Types].xml" and exactly one kind of word/ xl/ ppt/ prefix among entries 2-6 => docx / xlsx / pptx
//   P2 first entry "META-INF/MANIFEST.MF", no APK marker name anywhere                                  => jar
//   P3 first entry the stored file "mimetype" (no extra field) holding a registered ODF/EPUB type      => that type
//   N1 an OOXML / JAR / APK verdict => its marker is a substring of some entry name
//   N2 no marker in any name (and no leading "mimetype" entry) => exactly application/zip
//   every zip-family verdict has application/zip as its parent. Limit 0.

type c19Entry struct {
	Name string `json:"name"`
	Body []byte `json:"body"`
	Mode int    `json:"mode"` // 0 Create (deflate+descriptor) 1 store+descriptor 2 raw store 3 raw deflate 4 deflate+descriptor+mtime extra 5 directory
}

type c19Payload struct {
	Entries []c19Entry `json:"entries"`
	Note    string     `json:"note"`
	Entry   string     `json:"entry,omitempty"`
}

var c19Types = map[string][2]string{
	"application/vnd.oasis.opendocument.text":                  {"application/vnd.oasis.opendocument.text", ".odt"},
	"application/vnd.oasis.opendocument.text-template":         {"application/vnd.oasis.opendocument.text-template", ".ott"},
	"application/vnd.oasis.opendocument.spreadsheet":           {"application/vnd.oasis.opendocument.spreadsheet", ".ods"},
	"application/vnd.oasis.opendocument.spreadsheet-template":  {"application/vnd.oasis.opendocument.spreadsheet-template", ".ots"},
	"application/vnd.oasis.opendocument.presentation":          {"application/vnd.oasis.opendocument.presentation", ".odp"},
	"application/vnd.oasis.opendocument.presentation-template": {"application/vnd.oasis.opendocument.presentation-template", ".otp"},
	"application/vnd.oasis.opendocument.graphics":              {"application/vnd.oasis.opendocument.graphics", ".odg"},
	"application/vnd.oasis.opendocument.graphics-template":     {"application/vnd.oasis.opendocument.graphics-template", ".otg"},
	"application/vnd.oasis.opendocument.formula":               {"application/vnd.oasis.opendocument.formula", ".odf"},
	"application/vnd.oasis.opendocument.chart":                 {"application/vnd.oasis.opendocument.chart", ".odc"},
	"application/epub+zip":                                     {"application/epub+zip", ".epub"},
	"application/vnd.sun.xml.calc":                             {"application/vnd.sun.xml.calc", ".sxc"},
}

var c19OOXML = map[string][2]string{
	"word/": {"application/vnd.openxmlformats-officedocument.wordprocessingml.document", ".docx"},
	"xl/":   {"application/vnd.openxmlformats-officedocument.spreadsheetml.sheet", ".xlsx"},
	"ppt/":  {"application/vnd.openxmlformats-officedocument.presentationml.presentation", ".pptx"},
}

var c19APKMarkers = []string{"AndroidManifest.xml", "META-INF/com/android/build/gradle/app-metadata.properties", "classes.dex", "resources.arsc", "res/drawable"}

func c19Build(es []c19Entry) ([]byte, error) {
	var buf bytes.Buffer
	w := zip.NewWriter(&buf)
	var zip64At []int // offsets of local headers to be rewritten in ZIP64 form
	for _, e := range es {
		switch e.Mode {
		case 6:
			// stored, sizes known, local header in ZIP64 form (what CPython's zipfile writes with
			// force_zip64): 32-bit size fields 0xFFFFFFFF, real sizes in the extra field 0x0001
			w.Flush()
			zip64At = append(zip64At, buf.Len())
			ex := make([]byte, 20)
			binary.LittleEndian.PutUint16(ex[0:], 1)
			binary.LittleEndian.PutUint16(ex[2:], 16)
			binary.LittleEndian.PutUint64(ex[4:], uint64(len(e.Body)))
			binary.LittleEndian.PutUint64(ex[12:], uint64(len(e.Body)))
			fh := &zip.FileHeader{Name: e.Name, Method: zip.Store, CRC32: crc32.ChecksumIEEE(e.Body), CompressedSize64: uint64(len(e.Body)), UncompressedSize64: uint64(len(e.Body)), Extra: ex}
			f, err := w.CreateRaw(fh)
			if err != nil {
				return nil, err
			}
			f.Write(e.Body)
		case 0:
			f, err := w.Create(e.Name)
			if err != nil {
				return nil, err
			}
			f.Write(e.Body)
		case 1:
			f, err := w.CreateHeader(&zip.FileHeader{Name: e.Name, Method: zip.Store})
			if err != nil {
				return nil, err
			}
			f.Write(e.Body)
		case 2:
			fh := &zip.FileHeader{Name: e.Name, Method: zip.Store, CRC32: crc32.ChecksumIEEE(e.Body), CompressedSize64: uint64(len(e.Body)), UncompressedSize64: uint64(len(e.Body))}
			f, err := w.CreateRaw(fh)
			if err != nil {
				return nil, err
			}
			f.Write(e.Body)
		case 7, 8:
			// stored with sizes, and the fixed fields of the local header spell PK\x03\x04 themselves:
			// mode 7 in DOS time 09:26:32 + DOS date 0x0403; mode 8 in DOS date 2017-10-16 (0x4B50) + a
			// CRC-32 whose low bytes are 03 04 (the generator picks such bodies)
			fh := &zip.FileHeader{Name: e.Name, Method: zip.Store, CRC32: crc32.ChecksumIEEE(e.Body), CompressedSize64: uint64(len(e.Body)), UncompressedSize64: uint64(len(e.Body))}
			if e.Mode == 7 {
				fh.ModifiedTime, fh.ModifiedDate = 0x4B50, 0x0403
			} else {
				fh.ModifiedTime, fh.ModifiedDate = 0x6000, 0x4B50
			}
			f, err := w.CreateRaw(fh)
			if err != nil {
				return nil, err
			}
			f.Write(e.Body)
		case 3:
			var cb bytes.Buffer
			fw, _ := flate.NewWriter(&cb, flate.BestCompression)
			fw.Write(e.Body)
			fw.Close()
			fh := &zip.FileHeader{Name: e.Name, Method: zip.Deflate, CRC32: crc32.ChecksumIEEE(e.Body), CompressedSize64: uint64(cb.Len()), UncompressedSize64: uint64(len(e.Body))}
			f, err := w.CreateRaw(fh)
			if err != nil {
				return nil, err
			}
			f.Write(cb.Bytes())
		case 4:
			f, err := w.CreateHeader(&zip.FileHeader{Name: e.Name, Method: zip.Deflate, Modified: time.Date(2024, 1, 2, 3, 4, 5, 0, time.UTC)})
			if err != nil {
				return nil, err
			}
			f.Write(e.Body)
		case 5:
			n := e.Name
			if !strings.HasSuffix(n, "/") {
				n += "/"
			}
			if _, err := w.CreateHeader(&zip.FileHeader{Name: n, Method: zip.Store}); err != nil {
				return nil, err
			}
		}
	}
	if err := w.Close(); err != nil {
		return nil, err
	}
	out := buf.Bytes()
	for _, off := range zip64At {
		if off+30 <= len(out) && string(out[off:off+4]) == "PK\x03\x04" {
			copy(out[off+18:off+26], []byte{0xFF, 0xFF, 0xFF, 0xFF, 0xFF, 0xFF, 0xFF, 0xFF})
		}
	}
	return out, nil
}

type c19Want struct {
	claim     string // P1, P2, P3, N2 or "" (only N1 / parent checks apply)
	mime, ext string
}

func c19Expect(names []string, es []c19Entry) c19Want {
	anyContains := func(sub string) bool {
		for _, n := range names {
			if strings.Contains(n, sub) {
				return true
			}
		}
		return false
	}
	apk := false
	for _, m := range c19APKMarkers {
		if anyContains(m) {
			apk = true
		}
	}
	if len(names) > 0 && names[0] == "[Content_Types].xml" {
		kinds := map[string]bool{}
		for i := 1; i < len(names) && i < 6; i++ {
			for pre := range c19OOXML {
				if strings.HasPrefix(names[i], pre) {
					kinds[pre] = true
				}
			}
		}
		if len(kinds) == 1 {
			for pre := range kinds {
				return c19Want{"P1", c19OOXML[pre][0], c19OOXML[pre][1]}
			}
		}
	}
	if len(names) > 0 && names[0] == "META-INF/MANIFEST.MF" && !apk {
		return c19Want{"P2", "application/jar", ".jar"}
	}
	if len(names) > 0 && names[0] == "mimetype" && (es[0].Mode == 1 || es[0].Mode == 2) {
		if t, ok := c19Types[string(es[0].Body)]; ok {
			return c19Want{"P3", t[0], t[1]}
		}
		return c19Want{}
	}
	marker := apk || anyContains("META-INF/MANIFEST.MF")
	for pre := range c19OOXML {
		if anyContains(pre) {
			marker = true
		}
	}
	if !marker && !(len(names) > 0 && names[0] == "mimetype") {
		return c19Want{"N2", "application/zip", ".zip"}
	}
	return c19Want{}
}

// c19KnownPhantom is the fixed regression input of the known finding (DESIGN §5.2): no entry
// name contains an APK marker, the first name is shorter than 19 bytes, and the second local
// header (last modified 2017-10-16, CRC-32 ending in 03 04) spells PK\x03\x04 in its own fields.
func c19KnownPhantom() []c19Entry {
	return []c19Entry{{Name: "notes/readme.txt", Mode: 2, Body: []byte("hello")}, {Name: "abcdefghijk0", Mode: 8, Body: []byte("classes.dex<!-- 199732 -->")}}
}

func c19Judge(c *fw.Ctx, es []c19Entry, family string) {
	if family != "known" && len(es) > 1 && len(es[0].Name) < 19 && (es[1].Mode == 7 || es[1].Mode == 8) {
		// the class of the known finding is not generated: behind a first name of fewer than 19
		// bytes the library's search for the second header starts inside that header
		es = append([]c19Entry(nil), es...)
		es[1].Mode = 2
		c.Count("second_header_with_signature_fields_behind_short_first_name_not_generated", 1)
	}
	data, err := c19Build(es)
	if err != nil {
		return
	}
	// bodies free of embedded zip signatures: as many PK\x03\x04 as entries
	sigs := len(es)
	for _, e := range es {
		if e.Mode == 7 || (e.Mode == 8 && crc32.ChecksumIEEE(e.Body)&0xFFFF == 0x0403) {
			sigs += 2 // the signature spelled by the time / date / CRC fields, in the local header and again in the central directory
			c.Count("entries_with_signature_bytes_in_header_fields", 1)
		}
	}
	if bytes.Count(data, []byte("PK\x03\x04")) != sigs {
		c.Count("regenerated_embedded_signature", 1)
		return
	}
	zr, err := zip.NewReader(bytes.NewReader(data), int64(len(data)))
	if err != nil {
		panic("verif harness: archive/zip cannot read back its own output: " + err.Error())
	}
	var names []string
	for _, f := range zr.File {
		names = append(names, f.Name)
	}
	want := c19Expect(names, es)
	entry := pickEntry(c)
	p := c19Payload{Entries: es, Note: family, Entry: entry}
	key := fw.InputKey(data, 0, entry)
	c.Trace(func() (string, any) { return key, p })
	var ch lib.Chain
	if !c.Guard(key, func() any { return p }, func() { ch = lib.ChainOf(detectEntry(data, 0, entry)) }) {
		return
	}
	c.Eval(1)
	lf := ch.Leaf()
	show := func() string {
		var sb strings.Builder
		for i, e := range es {
			if i > 8 {
				sb.WriteString(" …")
				break
			}
			fmt.Fprintf(&sb, " %q(mode %d, %d bytes)", e.Name, e.Mode, len(e.Body))
		}
		return sb.String()
	}
	if want.claim != "" {
		c.Count("claims_"+want.claim, 1)
		if lf.T != want.mime || lf.Ext != want.ext {
			c.Violate("zip-verdict-"+want.claim, key, fmt.Sprintf("%s: entry names read back by archive/zip imply %s|%s, got %s; entries:%s", want.claim, want.mime, want.ext, ch, show()), p)
			return
		}
	}
	// N1 and parent
	verdictMarker := ""
	for pre, t := range c19OOXML {
		if lf.T == t[0] {
			verdictMarker = pre
		}
	}
	if lf.T == "application/jar" {
		verdictMarker = "META-INF/MANIFEST.MF"
	}
	if verdictMarker != "" {
		found := false
		for _, n := range names {
			if strings.Contains(n, verdictMarker) {
				found = true
			}
		}
		c.Count("n1_verdicts_checked", 1)
		if !found {
			c.Violate("zip-verdict-without-marker", key, fmt.Sprintf("N1: reported %s but no entry name contains %q; entries:%s", ch, verdictMarker, show()), p)
			return
		}
	}
	if lf.T == "application/vnd.android.package-archive" {
		found := false
		for _, m := range c19APKMarkers {
			for _, n := range names {
				if strings.Contains(n, m) {
					found = true
				}
			}
		}
		if !found {
			c.Violate("zip-verdict-without-marker", key, fmt.Sprintf("N1: reported APK but no entry name contains an APK marker; entries:%s", show()), p)
			return
		}
	}
	if verdictMarker != "" || lf.T == "application/vnd.android.package-archive" {
		// OOXML / JAR / APK verdicts sit directly below application/zip
		if len(ch) < 2 || lib.Base(ch[1].T) != "application/zip" || ch[1].Ext != ".zip" {
			c.Violate("zip-family-parent", key, fmt.Sprintf("verdict %s does not have application/zip as its parent (hierarchy %s)", lf.T, ch), p)
			return
		}
	}
	if !ch.HasLink("application/zip", ".zip") {
		c.Violate("zip-family-parent", key, fmt.Sprintf("an archive written by archive/zip is reported as %s, which does not have application/zip in its hierarchy", ch), p)
		return
	}
	if lf.T != "application/zip" && len(ch) >= 2 {
		// the verdict's parent chain passes through application/zip directly (or via odt for ott etc.)
		c.Count("subtype_verdicts", 1)
	}
	modes := map[int]bool{}
	for _, e := range es {
		modes[e.Mode] = true
	}
	var ms []string
	for m := 0; m <= 8; m++ {
		if modes[m] {
			ms = append(ms, fmt.Sprint(m))
		}
	}
	pos := -1
	for i, n := range names {
		for pre := range c19OOXML {
			if strings.HasPrefix(n, pre) && pos < 0 {
				pos = i
			}
		}
	}
	if want.claim != "" && (len(es) > 1 || want.claim == "P3") {
		c.Distinct(fmt.Sprintf("%s|%s|%s|modes=%s|markerpos=%d|n=%d", family, want.claim, want.ext, strings.Join(ms, ""), pos, minInt(len(es), 9)))
	}
	if c.WantSample() && want.claim != "" && c.Rand.Intn(3000) == 0 {
		c.Sample(map[string]any{"entry_names_read_back": names, "claim": want.claim, "expected": want.mime, "reported": ch.String(), "archive_bytes": len(data), "writer_modes": ms})
	}
}

var c19Book = []string{"_rels/.rels", "docProps/app.xml", "docProps/core.xml", "docProps/", "docProps/thumbnail.jpeg", "customXml/item1.xml", "customXml/", "[trash]/0000.dat", "_rels/"}
var c19Near = []string{"res/", "res/icons/app.png", "res/drawabl", "res/messages.properties", "classes.de", "resources.ars", "AndroidManifest.xm", "words/a.xml", "Word/document.xml", "xl.xml", "pptx/x", "x", "xl", "wor", "word", "pp", "ppt", "M", "META-INF/", "META-INF/MANIFEST.M", "XL/workbook.xml", "w/ord/", "x/l/", "mimetype2", "Mimetype",
	// the markers in another letter case are not markers
	"meta-inf/manifest.mf", "META-INF/manifest.mf", "Meta-Inf/Manifest.mf", "META-INF/MANIFEST.mf", "androidmanifest.xml", "ANDROIDMANIFEST.XML", "AndroidManifest.XML", "androidManifest.xml",
	"CLASSES.DEX", "Classes.dex", "RESOURCES.ARSC", "Resources.arsc", "RES/DRAWABLE/icon.png", "Res/drawable/x.png", "res/Drawable/x.png", "WORD/document.xml", "PPT/slides/slide1.xml", "Ppt/x", "Xl/x", "MIMETYPE",
	"meta-inf/com/android/build/gradle/app-metadata.properties", "[content_types].xml", "[CONTENT_TYPES].XML"}

// c19LengthGroups builds random packages and groups them by total length (up to 8 per
// length): members of a group can follow each other in one buffer at the same address
// with the same length.
func c19LengthGroups(r *rand.Rand, max int) map[int][][]byte {
	groups := map[int][][]byte{}
	pool := []string{"word/document.xml", "word/a.xml", "xl/workbook.xml", "xl/s.xml", "ppt/presentation.xml", "docs/readme.txt", "documents/r1.txt", "ward/a1.xml", "docProps/app.xml", "docProps/core.xml", "_rels/.rels", "customXml/item1.xml", "a", "bb", "ccc", "dddd/eeee.txt", "META-INF/MANIFEST.MF", "classes.dex", "x/y/z.bin"}
	for i := 0; i < 6000; i++ {
		var es []c19Entry
		if r.Intn(4) != 0 {
			es = append(es, c19Entry{Name: "[Content_Types].xml", Mode: r.Intn(3), Body: []byte("<Types/>")})
		}
		for k := 1 + r.Intn(4); k > 0; k-- {
			es = append(es, c19Entry{Name: pool[r.Intn(len(pool))], Mode: r.Intn(3), Body: []byte("<x/>")[:r.Intn(5)]})
		}
		d, err := c19Build(es)
		if err != nil || len(d) > max || bytes.Count(d, []byte("PK\x03\x04")) != len(es) {
			continue
		}
		if len(groups[len(d)]) < 8 {
			groups[len(d)] = append(groups[len(d)], d)
		}
	}
	return groups
}

func c19Body(r *rand.Rand, aliasing bool, name string) []byte {
	if aliasing {
		// body begins with what would complete a marker started by the name
		rest := []string{"l/workbook.xml", "ord/document.xml", "pt/presentation.xml", "/a", "d/x", "ETA-INF/MANIFEST.MF", "t/x"}
		return []byte(rest[r.Intn(len(rest))] + "<x/>")
	}
	if r.Intn(10) == 0 {
		// body ENDS with a literal of the tree's source (markers that a detector looks for in front
		// of the central directory or of the next header)
		if d := lib.SourceDictionary(); len(d) > 0 {
			if t := d[r.Intn(len(d))]; len(t) > 0 && len(t) <= 40 && !bytes.Contains(t, []byte("PK\x03")) {
				return append([]byte("body that ends with a marker: "), t...)
			}
		}
	}
	if r.Intn(8) == 0 {
		// body begins where an extra field would begin: extra-field ids (0xCAFE = the JDK's jar
		// magic, 0x5455, 0x000a, 0x7875, 0x0001), small lengths, or a literal of the tree's source
		heads := [][]byte{{0xFE, 0xCA, 0x00, 0x00}, {0xFE, 0xCA}, {0xCA, 0xFE}, {0x55, 0x54, 0x05, 0x00, 0x01}, {0x0a, 0x00, 0x20, 0x00}, {0x75, 0x78, 0x0b, 0x00}, {0x01, 0x00, 0x10, 0x00}, {0x00, 0x00}, {0xFF, 0xFF}}
		h := heads[r.Intn(len(heads))]
		if r.Intn(3) == 0 {
			if d := lib.SourceDictionary(); len(d) > 0 {
				if t := d[r.Intn(len(d))]; len(t) > 0 && len(t) <= 40 && !bytes.Contains(t, []byte("PK\x03")) {
					h = t
				}
			}
		}
		return append(append([]byte{}, h...), "rest of the body"...)
	}
	switch r.Intn(6) {
	case 0:
		return nil
	case 1:
		return []byte("<")
	case 2:
		return []byte(`<?xml version="1.0" encoding="UTF-8" standalone="yes"?><Types xmlns="http://schemas.openxmlformats.org/package/2006/content-types"><Default Extension="rels" ContentType="application/vnd.openxmlformats-package.relationships+xml"/></Types>`)
	case 3:
		return []byte("<a>" + strings.Repeat("data ", r.Intn(400)) + "</a>")
	case 4:
		b := make([]byte, r.Intn(300))
		for i := range b {
			b[i] = byte(r.Intn(256))
		}
		return b
	default:
		return []byte("<w:document xmlns:w=\"http://schemas.openxmlformats.org/wordprocessingml/2006/main\"><w:body/></w:document>")
	}
}

func c19Unrelated(r *rand.Rand) string {
	n := 1 + r.Intn(60)
	b := make([]byte, n)
	for i := range b {
		b[i] = "abcdefghijklmnopqrstuvwyz0123456789._-/"[r.Intn(39)]
	}
	s := strings.Trim(string(b), "/")
	if s == "" {
		s = "f"
	}
	return s
}

func c19Mode(r *rand.Rand, name string) int {
	if strings.HasSuffix(name, "/") {
		return 5
	}
	if r.Intn(12) == 0 {
		return 6
	}
	if r.Intn(15) == 0 {
		return 7
	}
	return r.Intn(5)
}

// c19Special: archives with a part of more than 1 MiB in front of the marker, and
// pairs of equal-length archives detected one after the other in the SAME buffer.
func c19Special(c *fw.Ctx) {
	r := c.Rand
	big := make([]byte, 1100*1024)
	for i := range big {
		big[i] = byte(r.Intn(256))
	}
	// every literal of the tree's source at the very END of the last entry (stored with sizes, no
	// descriptor: it sits right in front of the central directory), in a plain zip, a JAR and an ODT
	for _, lit := range lib.SourceDictionary() {
		if len(lit) < 3 || len(lit) > 40 || bytes.Contains(lit, []byte("PK\x03")) {
			continue
		}
		body := append([]byte("payload that ends with a marker: "), lit...)
		c19Judge(c, []c19Entry{{Name: "notes/readme.txt", Mode: 0, Body: []byte("x")}, {Name: "data.bin", Mode: 2, Body: body}}, "tail-literal")
		if len(lit)%3 == 0 {
			c19Judge(c, []c19Entry{{Name: "META-INF/MANIFEST.MF", Mode: 0, Body: []byte("Manifest-Version: 1.0\n")}, {Name: "a/B.class", Mode: 2, Body: body}}, "tail-literal")
			c19Judge(c, []c19Entry{{Name: "mimetype", Mode: 2, Body: []byte("application/vnd.oasis.opendocument.text")}, {Name: "content.xml", Mode: 2, Body: body}}, "tail-literal")
		}
		c.Count("archives_ending_with_a_source_literal", 1)
	}
	// local headers whose own fixed fields contain PK\x03\x04 (a member last modified on 2017-10-16
	// with a CRC-32 ending in 03 04, or at 09:26:32 with DOS date 0x0403): between the first entry
	// and a marker at every position 2-7, and in marker-free archives whose names are 8-14 bytes
	// long and whose data begins with a marker string
	crcBodies := map[string][]byte{}
	crcBody := func(prefix string) []byte {
		if b, ok := crcBodies[prefix]; ok {
			return b
		}
		for k := 0; ; k++ {
			b := []byte(fmt.Sprintf("%s<!-- %d -->", prefix, k))
			if crc32.ChecksumIEEE(b)&0xFFFF == 0x0403 {
				crcBodies[prefix] = b
				return b
			}
		}
	}
	fillers := []string{"docProps/app.xml", "_rels/.rels", "customXml/a", "notes.txt", "a/b/c/d.bin"}
	for _, mode := range []int{7, 8} {
		body := func(prefix string) []byte {
			if mode == 8 {
				return crcBody(prefix)
			}
			return []byte(prefix + "<x/>")
		}
		for _, mk := range []string{"word/document.xml", "xl/workbook.xml", "ppt/presentation.xml"} {
			for pos := 1; pos <= 6; pos++ {
				for nSpecial := 1; nSpecial < pos; nSpecial++ {
					es := []c19Entry{{Name: "[Content_Types].xml", Mode: 2, Body: []byte("<Types/>")}}
					for len(es) < pos {
						m := 2
						if len(es) >= 2 && len(es) <= nSpecial+1 {
							m = mode
						}
						es = append(es, c19Entry{Name: fillers[(len(es)+pos)%len(fillers)], Mode: m, Body: body("")})
					}
					es = append(es, c19Entry{Name: mk, Mode: r.Intn(3), Body: []byte("<x/>")})
					c19Judge(c, es, "signature-in-header-fields")
				}
			}
		}
		for _, first := range []string{"notes/readme.txt", "META-INF/MANIFEST.MF", "[Content_Types].xml", "mimetype"} {
			for _, lead := range []string{"word/document.xml", "xl/workbook.xml", "ppt/slides/slide1.xml", "META-INF/MANIFEST.MF", "AndroidManifest.xml", "classes.dex", "resources.arsc", "res/drawable/x.png"} {
				for nameLen := 8; nameLen <= 14; nameLen++ {
					es := []c19Entry{{Name: first, Mode: 2, Body: []byte("application/vnd.oasis.opendocument.text")}}
					for k := 0; k < 3; k++ {
						es = append(es, c19Entry{Name: "abcdefghijklmnopq"[:nameLen-1] + string(rune('0'+k)), Mode: mode, Body: body(lead)})
					}
					c19Judge(c, es, "signature-in-header-fields")
				}
			}
		}
	}
	if c.Tier == "thorough" || c.Rand.Intn(2) == 0 {
		// one part of more than 16 MiB in front of the marker
		huge := make([]byte, 17<<20)
		for i := range huge {
			huge[i] = byte(i * 7)
		}
		for _, mode := range []int{1, 2} {
			es := []c19Entry{{Name: "[Content_Types].xml", Mode: 0, Body: []byte("<Types/>")}, {Name: "customXml/item1.xml", Mode: mode, Body: huge}, {Name: "word/document.xml", Mode: 0, Body: []byte("<x/>")}}
			c19Judge(c, es, "huge-part")
		}
	}
	for _, mode := range []int{0, 1, 2} {
		for _, mk := range []string{"word/document.xml", "xl/workbook.xml", "ppt/presentation.xml"} {
			es := []c19Entry{{Name: "[Content_Types].xml", Mode: 0, Body: []byte("<Types/>")}, {Name: "docProps/thumbnail.jpeg", Mode: mode, Body: big}, {Name: mk, Mode: 0, Body: []byte("<x/>")}}
			c19Judge(c, es, "large-part")
		}
	}
	// same backing array, same length, different archives: random packages are
	// grouped by total length; each group is detected one after the other in ONE
	// buffer (same &buf[0], same len) and compared with detection in a fresh slice
	buf := make([]byte, 1<<16)
	groups := c19LengthGroups(r, len(buf))
	for n, g := range groups {
		if len(g) < 2 {
			continue
		}
		fresh := make([]string, len(g))
		for i, d := range g {
			fresh[i] = lib.ChainOf(lib.Detect(append([]byte(nil), d...), 0)).String()
		}
		distinctVerdicts := map[string]bool{}
		for _, f := range fresh {
			distinctVerdicts[f] = true
		}
		for pass := 0; pass < 2; pass++ {
			for i := range g {
				j := i
				if pass == 1 {
					j = len(g) - 1 - i
				}
				copy(buf, g[j])
				got := lib.ChainOf(lib.Detect(buf[:n], 0)).String()
				c.Eval(1)
				if got != fresh[j] {
					c.Violate("zip-verdict-depends-on-buffer-history", fw.InputKey(g[j], 0, "Detect/reused-buffer"), fmt.Sprintf("a %d-byte archive gives %s when it is detected in a buffer that held another archive of the same length before, and %s in a fresh slice", n, got, fresh[j]), c19Payload{Note: "buffer-reuse"})
					return
				}
			}
		}
		c.Count("buffer_reuse_groups", 1)
		if len(distinctVerdicts) > 1 {
			c.Count("buffer_reuse_groups_with_different_verdicts", 1)
			c.Distinct(fmt.Sprintf("reuse|%d", n))
		}
	}
}

func c19Run(c *fw.Ctx, b fw.Batch) {
	if b.Kind == "special" {
		c19Special(c)
		return
	}
	if b.Kind == "known" {
		forcedEntry = "Detect"
		c.Count("known_finding_regression_input_replayed", 1)
		c19Judge(c, c19KnownPhantom(), "known")
		forcedEntry = ""
		return
	}
	r := c.Rand
	markers := []string{"word/document.xml", "word/", "xl/workbook.xml", "xl/", "ppt/presentation.xml", "ppt/", "word/_rels/document.xml.rels", "xl/worksheets/sheet1.xml"}
	for i := 0; i < b.N; i++ {
		aliasing := b.Kind == "aliasing"
		var es []c19Entry
		add := func(name string) {
			es = append(es, c19Entry{Name: name, Mode: c19Mode(r, name), Body: c19Body(r, aliasing && r.Intn(2) == 0, name)})
		}
		switch fam := r.Intn(10); {
		case fam < 5: // OOXML-like packages
			add("[Content_Types].xml")
			pos := 1 + r.Intn(9)
			total := pos + r.Intn(4)
			kind := markers[r.Intn(len(markers))]
			if r.Intn(10) == 0 {
				// the part's file name goes on in a legacy code page (CP932 / GBK / Latin-1 bytes)
				kind = strings.SplitN(kind, "/", 2)[0] + "/" + []string{"\x95\xb6\x8f\x91.xml", "caf\xe9.xml", "\xce\xc4\xb5\xb5.xml"}[r.Intn(3)]
			}
			for len(es) < total+1 {
				if len(es) == pos {
					add(kind)
					continue
				}
				switch r.Intn(5) {
				case 0, 1:
					add(c19Book[r.Intn(len(c19Book))])
				case 2:
					add(c19Near[r.Intn(len(c19Near))])
				case 3:
					add(c19Unrelated(r))
				default:
					if r.Intn(3) == 0 { // a second marker, same kind or another kind
						add(markers[r.Intn(len(markers))])
					} else {
						add(c19Book[r.Intn(len(c19Book))])
					}
				}
			}
			if r.Intn(6) == 0 { // no marker at all
				es = es[:1]
				for k := r.Intn(6); k > 0; k-- {
					add(c19Book[r.Intn(len(c19Book))])
				}
			}
		case fam == 5: // jar
			add("META-INF/MANIFEST.MF")
			for k := r.Intn(6); k > 0; k-- {
				add([]string{"com/example/Main.class", "META-INF/", "org/", c19Unrelated(r), "module-info.class"}[r.Intn(5)])
			}
			if r.Intn(5) == 0 {
				add(c19APKMarkers[r.Intn(len(c19APKMarkers))])
			}
			if r.Intn(4) == 0 {
				add(c19Near[r.Intn(7)])
			}
		case fam == 6: // ODF / EPUB
			var keys []string
			for k := range c19Types {
				keys = append(keys, k)
			}
			sortStrings(keys)
			t := keys[r.Intn(len(keys))]
			body := t
			if r.Intn(6) == 0 {
				body = t + []string{"\n", "-master", " ", "x"}[r.Intn(4)]
			}
			es = append(es, c19Entry{Name: "mimetype", Mode: 1 + r.Intn(2), Body: []byte(body)})
			for k := r.Intn(5); k > 0; k-- {
				add([]string{"content.xml", "META-INF/manifest.xml", "styles.xml", "OEBPS/content.opf", "META-INF/container.xml", c19Unrelated(r)}[r.Intn(6)])
			}
		case fam == 7: // apk-ish and jar-ish with the marker later
			for k := r.Intn(4); k > 0; k-- {
				add(c19Unrelated(r))
			}
			add([]string{"AndroidManifest.xml", "classes.dex", "resources.arsc", "res/drawable/icon.png", "META-INF/MANIFEST.MF"}[r.Intn(5)])
			for k := r.Intn(3); k > 0; k-- {
				add(c19Unrelated(r))
			}
		default: // unrelated names and near misses only
			if r.Intn(4) == 0 { // a wrongly cased marker early in an otherwise unrelated archive
				for k := r.Intn(3); k > 0; k-- {
					add(c19Unrelated(r))
				}
				add(c19Near[len(c19Near)-23+r.Intn(23)])
			}
			for k := 1 + r.Intn(9); k > 0; k-- {
				if r.Intn(3) == 0 {
					add(c19Near[r.Intn(len(c19Near))])
				} else {
					add(c19Unrelated(r))
				}
			}
		}
		c19Judge(c, es, b.Kind)
	}
}

func init() {
	fw.Register(&fw.Prop{
		ID:    "C19",
		Level: "exploration",
		Rule: "archives are written with archive/zip from generated entry lists: OOXML-like packages ([Content_Types].xml first, bookkeeping parts _rels / docProps / customXml / [trash] in any combination incl. directory entries, one marker part word/ xl/ ppt/ at positions 2-10, sometimes further markers, near-miss names words/ Word/ xl.xml pptx/, every marker in other letter cases (meta-inf/manifest.mf, androidmanifest.xml, CLASSES.DEX, WORD/ …) and proper prefixes x xl wor word pp M, unrelated names of 1-60 characters), JARs, APK-like, ODF/EPUB with a stored 'mimetype' first entry (exact and near-miss contents), unrelated-only archives; every entry is written in one of 9 ways (stored with sizes and a local header whose own DOS time / date / CRC-32 fields spell PK\\x03\\x04 - 09:26:32 with date 0x0403, or 2017-10-16 with a CRC ending in 03 04; stored with a ZIP64-form local header as CPython's force_zip64 writes it; Create = deflate + data descriptor; store + descriptor; CreateRaw store with sizes; CreateRaw deflate with sizes; deflate + descriptor + extended-timestamp extra field; directory entry); bodies empty / one byte / XML-like / random / large / beginning with extra-field ids (0xCAFE, 0x5455, …) or literals of the tree's source; an 'aliasing' family puts the remainder of a marker at the start of a body that follows a proper-prefix name. A few packages carry a part of more than 1 MiB in front of the marker, and pairs of equal-length archives are detected one after the other in the same buffer. Archives whose bytes contain PK\\x03\\x04 other than at entry headers (and in those header fields) are dropped. The entry list is read back with zip.Reader and decides P1 P2 P3 N1 N2 and the application/zip parent; limit 0. " +
			"non-trivial = an archive with a claim (P1/P2/P3/N2) and more than one entry; distinct = distinct (family, claim, verdict, set of writer modes used, position of the first marker, entry count).",
		Assumptions: []string{
			"archive/zip is the standard writer and reader",
			"P3 is claimed for a stored 'mimetype' entry without extra field (store + descriptor, or raw store), as ODF/EPUB writers produce it",
			"P1 is claimed when exactly one kind of marker occurs among entries 2-6 (several kinds: only N1 and the parent are checked)",
			"a second local header whose own fields spell PK\\x03\\x04 behind a first name of fewer than 19 bytes is not generated: that class is the known finding (KNOWN_FINDINGS.txt, DESIGN 5.2), replayed from one fixed input on every run",
		},
		Plan: func(tier string, seed int64) []fw.Batch {
			n := 4000
			if tier == "thorough" {
				n = 120000
			}
			bs := batches("realistic", 12, n, 3000)
			bs = append(bs, batches("aliasing", 4, n, 3000)...)
			bs = append(bs, batches("special", 1, 0, 3000)...)
			bs = append(bs, batches("known", 1, 0, 3000)...)
			return bs
		},
		Run: c19Run,
		Replay: func(c *fw.Ctx, payload stdjson.RawMessage) {
			var p c19Payload
			if err := stdjson.Unmarshal(payload, &p); err != nil {
				fmt.Println("bad payload:", err)
				return
			}
			forcedEntry = p.Entry
			if p.Note == "buffer-reuse" {
				c19Special(c)
				return
			}
			if p.Note == "known" {
				c19Judge(c, p.Entries, "known")
				return
			}
			c19Judge(c, p.Entries, "replay")
		},
		Finish: func(a *fw.Agg) error {
			for _, k := range []string{"claims_P1", "claims_P2", "claims_P3", "claims_N2", "n1_verdicts_checked"} {
				if a.Counters[k] < 300 {
					return fmt.Errorf("%s exercised only %d times", k, a.Counters[k])
				}
			}
			return nil
		},
	})
}
