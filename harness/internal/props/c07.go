package props

import (
	"bytes"
	"encoding/json"
	"fmt"
	"os"
	"path/filepath"
	"strconv"
	"strings"

	"github.com/gabriel-vasile/mimetype"

	"verifharness/internal/fw"
	"verifharness/internal/gen"
	"verifharness/internal/lib"
)

// C07 — text versus binary is decided by binary-data bytes.
//
// Oracle (ranges hard-coded from the statement, independent of the library):
//   T(h) := h starts with a Unicode BOM, or h contains no byte in
//           00-08, 0B, 0E-1A, 1C-1F.            (h = examined header)
//   text/plain somewhere in the result hierarchy  =>  T(h)
//   T(h)  =>  the result is not the bare parentless root.

var c07BOMs = [][]byte{{0xEF, 0xBB, 0xBF}, {0xFE, 0xFF}, {0xFF, 0xFE}, {0x00, 0x00, 0xFE, 0xFF}, {0xFF, 0xFE, 0x00, 0x00}}

func c07IsBinByte(b byte) bool {
	return b <= 0x08 || b == 0x0B || (b >= 0x0E && b <= 0x1A) || (b >= 0x1C && b <= 0x1F)
}

func c07T(h []byte) bool {
	for _, bom := range c07BOMs {
		if len(h) >= len(bom) {
			ok := true
			for i := range bom {
				if h[i] != bom[i] {
					ok = false
					break
				}
			}
			if ok {
				return true
			}
		}
	}
	for _, b := range h {
		if c07IsBinByte(b) {
			return false
		}
	}
	return true
}

type c07Base struct {
	kind string
	b    []byte
}

func c07Bases(c *fw.Ctx) []c07Base {
	long := make([]byte, 0, 4200)
	for len(long) < 4100 {
		long = append(long, "The quick brown fox jumps over the lazy dog. "...)
	}
	bs := []c07Base{
		{"ascii", []byte("Hello, plain text world! 123\n")},
		{"utf8", []byte("caf\xC3\xA9 na\xC3\xAFve \xE2\x82\xAC10 \xF0\x9F\x98\x80\n")},
		{"latin1", []byte("caf\xE9 d\xE9j\xE0 vu \xA9 2024\n")},
		{"json", []byte(`{"a":[1,2,{"b":"c"}],"d":null}`)},
		{"geojson", []byte(`{"type":"Feature","geometry":null}`)},
		{"csv", []byte("a,b,c\n1,2,3\n4,5,6\n")},
		{"tsv", []byte("a\tb\n1\t2\n3\t4\n")},
		{"ndjson", []byte("{\"a\":1}\n{\"b\":2}\n")},
		{"html", []byte("<!DOCTYPE html><html><head><meta charset=\"utf-8\"></head>")},
		{"xml", []byte("<?xml version=\"1.0\" encoding=\"UTF-8\"?><rss version=\"2.0\">")},
		{"svg", []byte("<svg xmlns=\"http://www.w3.org/2000/svg\"></svg>")},
		{"shebang", []byte("#!/usr/bin/env python\nprint('x')\n")},
		{"php", []byte("<?php echo 'hi'; ?>")},
		{"vcard", []byte("BEGIN:VCARD\nVERSION:3.0\nEND:VCARD\n")},
		{"rtf", []byte("{\\rtf1\\ansi\\deff0}")},
		{"srt", []byte("1\n00:02:16,612 --> 00:02:19,376\nSenator\n")},
		{"vtt", []byte("WEBVTT\n\n00:01.000 --> 00:04.000\nhi\n")},
		{"empty", []byte{}},
		{"one", []byte("x")},
		{"two", []byte("ab")},
		{"long", long},
	}
	for i := 0; i < 6; i++ {
		n := 3 + c.Rand.Intn(50)
		b := make([]byte, n)
		for j := range b {
			b[j] = byte(0x20 + c.Rand.Intn(0x5f))
		}
		bs = append(bs, c07Base{"rand-printable", b})
	}
	return bs
}

// c07File judges DetectFile(path) by the bytes the file really delivers (read before
// and after; a file whose content changed in between is skipped).
func c07File(c *fw.Ctx, path string) {
	before, err := os.ReadFile(path)
	if err != nil {
		c.Count("files_unreadable", 1)
		return
	}
	for _, lim := range []uint32{0, 3072, 1, 16, uint32(len(before)), uint32(len(before) + 1), uint32(len(before) / 2)} {
		nv := c.NViol()
		c07Judge(c, "file", before, lim, "DetectFile:"+path, "")
		if c.NViol() != nv {
			after, _ := os.ReadFile(path)
			if !bytes.Equal(before, after) {
				c.Count("files_changed_while_judged", 1)
			}
		}
		c.Count("files_judged", 1)
	}
}

func c07Judge(c *fw.Ctx, kind string, in []byte, limit uint32, entry string, classKey string) {
	h := lib.Header(in, limit)
	T := c07T(h)
	key := fw.InputKey(in, limit, entry)
	c.Trace(func() (string, any) { return key, fw.MkInCase(kind, in, limit, entry, "") })
	var ch lib.Chain
	ok := c.Guard(key, func() any { return fw.MkInCase(kind, in, limit, entry, "panic") }, func() {
		var m *mimetype.MIME
		var err error
		if strings.HasPrefix(entry, "DetectFilePaused:") {
			cut, _ := strconv.Atoi(strings.TrimPrefix(entry, "DetectFilePaused:"))
			m, err = detectPipePaused(in, limit, cut)
			if err != nil {
				panic("DetectFile returned an error for a named pipe that a writer fills and closes: " + err.Error())
			}
		} else if strings.HasPrefix(entry, "DetectFile:") {
			mimetype.SetLimit(limit)
			m, err = mimetype.DetectFile(strings.TrimPrefix(entry, "DetectFile:"))
		} else {
			m, err = detect(in, limit, entry)
		}
		anomalyC02(c, m, err)
		ch = lib.ChainOf(m)
	})
	c.Eval(1)
	if !ok {
		return
	}
	text := isTextChain(ch)
	if text {
		c.Count("verdict_text", 1)
	} else if ch.IsRootOnly() {
		c.Count("verdict_unknown_root", 1)
	} else {
		c.Count("verdict_binary", 1)
	}
	if T {
		c.Count("oracle_T_true", 1)
	} else {
		c.Count("oracle_T_false", 1)
	}
	if text && !T {
		c.Violate("text-despite-binary-byte", key,
			fmt.Sprintf("result %s has text/plain in its hierarchy although the examined header (%d bytes) has no BOM and contains a binary data byte; input %s limit %d", ch, len(h), fw.Quote(in, 80), limit),
			fw.MkInCase(kind, in, limit, entry, "text/plain in chain but header has a binary data byte"))
	}
	if T && ch.IsRootOnly() {
		c.Violate("unknown-despite-text", key,
			fmt.Sprintf("result is the bare application/octet-stream root although the examined header (%d bytes) starts with a BOM or has no binary data byte; input %s limit %d", len(h), fw.Quote(in, 80), limit),
			fw.MkInCase(kind, in, limit, entry, "root-only but header is text by the byte-class predicate"))
	}
	if classKey != "" {
		nontrivial := false
		for _, b := range h {
			if b >= 0x80 || b < 0x20 {
				nontrivial = true
				break
			}
		}
		if nontrivial {
			c.Distinct(classKey)
		}
	}
	if c.WantSample() && len(in) > 0 && len(in) < 60 && c.Rand.Intn(2000) == 0 {
		c.Sample(map[string]any{"input": fw.Quote(in, 80), "limit": limit, "entry": entry, "oracle_T": T, "result": ch.String()})
	}
}

func c07PosClass(pos, n int) string {
	switch {
	case pos == 0:
		return "first"
	case pos == n-1:
		return "last"
	case pos < 4:
		return "head"
	default:
		return "inner"
	}
}

func c07Run(c *fw.Ctx, b fw.Batch) {
	bases := c07Bases(c)
	thorough := c.Tier == "thorough"
	switch b.Kind {
	case "inject":
		// every byte value at every position (bases <= 64 bytes; sampled positions otherwise)
		type job struct {
			bi, pos int
			insert  bool
		}
		var jobs []job
		for bi, bs := range bases {
			n := len(bs.b)
			var poss []int
			if n <= 64 || thorough && n <= 200 {
				for p := 0; p <= n; p++ {
					poss = append(poss, p)
				}
			} else {
				poss = []int{0, 1, 2, 3, n / 2, n - 2, n - 1, n, 3070, 3071, 3072, 3073}
			}
			for _, p := range poss {
				if p < n {
					jobs = append(jobs, job{bi, p, false})
				}
				if p <= n {
					jobs = append(jobs, job{bi, p, true})
				}
			}
		}
		lo, hi := split(len(jobs), b.Idx, b.Of)
		for _, j := range jobs[lo:hi] {
			bs := bases[j.bi]
			for v := 0; v < 256; v++ {
				var x []byte
				if j.insert {
					x = append(append(append([]byte{}, bs.b[:j.pos]...), byte(v)), bs.b[j.pos:]...)
				} else {
					x = append([]byte{}, bs.b...)
					x[j.pos] = byte(v)
				}
				n := len(x)
				type lim struct {
					l   uint32
					rel string
				}
				lims := []lim{{0, "unlimited"}, {uint32(n + 1), "whole"}, {uint32(j.pos + 1), "byte-is-last-inside"}, {3072, "default"}}
				if j.pos > 0 {
					lims = append(lims, lim{uint32(j.pos), "byte-just-outside"})
				}
				if n > j.pos+1 {
					lims = append(lims, lim{uint32(n), "exact-len"})
				}
				for _, l := range lims {
					entry := "Detect"
					if v%16 == 3 && l.rel != "default" {
						entry = "DetectReader"
					}
					ck := fmt.Sprintf("inj|%s|%02x|%s|%s|%v", bs.kind, v, c07PosClass(j.pos, n), l.rel, j.insert)
					c07Judge(c, "inject:"+bs.kind, x, l.l, entry, ck)
				}
			}
		}
	case "bom":
		// BOMs (and every proper prefix / near miss of a BOM) followed by binary bytes
		var heads [][]byte
		for _, bom := range c07BOMs {
			for k := 1; k <= len(bom); k++ {
				heads = append(heads, bom[:k])
			}
			for i := range bom { // near misses
				nm := append([]byte{}, bom...)
				nm[i] ^= 0x01
				heads = append(heads, nm)
			}
		}
		tails := [][]byte{{}, []byte("text"), []byte("<html>"), []byte("{\"a\":1}")}
		lo, hi := split(len(heads), b.Idx, b.Of)
		for hi2, hd := range heads[lo:hi] {
			for v := 0; v < 256; v++ {
				if !thorough && !c07IsBinByte(byte(v)) && v%8 != 1 {
					continue
				}
				for ti, tl := range tails {
					for _, gap := range []int{0, 1, 5} {
						x := append([]byte{}, hd...)
						x = append(x, tl[:minInt(gap, len(tl))]...)
						x = append(x, byte(v))
						x = append(x, tl...)
						for _, l := range []uint32{0, uint32(len(x) + 1), uint32(len(hd)), uint32(len(hd) + 1), uint32(len(hd) + gap + 1), 1, 2, 3, 4} {
							if l == 0 && len(hd) == 0 {
								continue
							}
							ck := fmt.Sprintf("bom|%d|%02x|%d|%d|%d", lo+hi2, v, ti, gap, l)
							c07Judge(c, "bom", x, l, "Detect", ck)
						}
					}
				}
			}
		}
	case "seeds":
		// binary (and text) seeds, alone, truncated, with BOM prefixes, with one
		// binary byte cleaned or injected.
		seeds := lib.Seeds()
		lo, hi := split(len(seeds), b.Idx, b.Of)
		for si, s := range seeds[lo:hi] {
			if len(s) > 4096 {
				s = s[:4096]
			}
			vars := [][]byte{s}
			for _, bom := range c07BOMs {
				vars = append(vars, append(append([]byte{}, bom...), s...))
			}
			// sanitised copy: every binary byte replaced by a space => must become text
			clean := append([]byte{}, s...)
			for i, x := range clean {
				if c07IsBinByte(x) {
					clean[i] = ' '
				}
			}
			vars = append(vars, clean)
			for vi, x := range vars {
				for _, l := range []uint32{0, 3072, uint32(len(x)), uint32(len(x) + 1), uint32(len(x) / 2), 1, 2, 3, 4, 5, 8, 16, 64} {
					c07Judge(c, "seed", x, l, "Detect", fmt.Sprintf("seed|%d|%d|%d", lo+si, vi, l))
				}
			}
			if len(clean) > 0 {
				for k := 0; k < 40; k++ {
					x := append([]byte{}, clean...)
					p := c.Rand.Intn(len(x))
					v := byte(c.Rand.Intn(0x20))
					x[p] = v
					for _, l := range []uint32{0, uint32(p + 1), uint32(maxInt(p, 1))} {
						c07Judge(c, "seed-reinject", x, l, "Detect", fmt.Sprintf("seedinj|%d|%02x|%v", lo+si, v, int(l) > p || l == 0))
					}
				}
			}
		}
	case "files":
		// DetectFile: files whose stat size says nothing about their content (procfs: size 0,
		// content with NUL bytes / pure text) and ordinary temp files of both classes
		for _, pf := range []string{"/proc/self/cmdline", "/proc/self/environ", "/proc/self/auxv", "/proc/version", "/proc/self/comm", "/proc/filesystems"} {
			c07File(c, pf)
		}
		dir, err := os.MkdirTemp("", "verif-c07-")
		if err != nil {
			panic("verif harness: " + err.Error())
		}
		defer os.RemoveAll(dir)
		seeds := lib.Seeds()
		for i := 0; i < 120; i++ {
			x := append([]byte{}, seeds[c.Rand.Intn(len(seeds))]...)
			if i%3 == 0 {
				x = []byte(gen.TextTails()[c.Rand.Intn(40)])
			}
			if i%5 == 0 && len(x) > 0 {
				x[c.Rand.Intn(len(x))] = byte(c.Rand.Intn(0x20))
			}
			f := filepath.Join(dir, "f.bin")
			if os.WriteFile(f, x, 0o600) != nil {
				continue
			}
			c07File(c, f)
		}
	case "huge":
		// size thresholds: the first binary data byte far into a long clean text
		for _, off := range []int{4095, 4096, 65535, 65536, 1<<20 - 1, 1 << 20, 1<<20 + 1, 1<<21 + 7} {
			x := bytes.Repeat([]byte("clean text line\n"), off/16+2)
			x = x[:off+5]
			for _, v := range []byte{0x00, 0x1A, 0x0B, 0x1F} {
				x[off] = v
				for _, l := range []uint32{0, uint32(off), uint32(off + 1), 1 << 22, 3072} {
					c07Judge(c, "huge", x, l, "Detect", fmt.Sprintf("huge|%d|%02x|%d", off, v, l))
					if off <= 1<<20 && v == 0x00 {
						// the reader path, also through the standard library's buffered reader
						c07Judge(c, "huge", x, l, "DetectReader", "")
						c07Judge(c, "huge", x, l, "DetectReaderBufio", "")
					}
				}
			}
			x[off] = 'x'
		}
	case "utf16-like":
		// ASCII characters alternating with NUL bytes (UTF-16 without a byte-order mark): the NULs are
		// binary data bytes, there is no BOM
		for _, n := range []int{4, 16, 32, 33, 64, 200, 2000} {
			for _, be := range []bool{false, true} {
				x := make([]byte, 0, 2*n)
				for i := 0; i < n; i++ {
					ch := "plain ascii text in sixteen bit units\n"[i%38]
					if be {
						x = append(x, 0, ch)
					} else {
						x = append(x, ch, 0)
					}
				}
				for _, l := range []uint32{0, 40, 64, 65, 3072, uint32(len(x))} {
					c07Judge(c, "utf16-like", x, l, "Detect", fmt.Sprintf("utf16|%d|%v|%d", n, be, l))
					c07Judge(c, "utf16-like", x, l, "DetectReader", "")
				}
			}
		}
		// files whose NAME suggests text while the content is binary (and the reverse)
		dir, err := os.MkdirTemp("", "verif-c07-")
		if err != nil {
			panic("verif harness: " + err.Error())
		}
		defer os.RemoveAll(dir)
		for _, name := range []string{"notes.txt", "page.html", "table.csv", "config.json", "run.py", "doc.xml", "README", "a.tsv", "x.TXT", "archive.zip", "photo.png"} {
			for _, content := range [][]byte{{0x00, 0x01, 0x02, 0x03, 0x04}, []byte("\x00\x00\x00\x00unknown binary\x1a\x1f"), []byte("just text"), {}} {
				f := filepath.Join(dir, name)
				if os.WriteFile(f, content, 0o600) != nil {
					continue
				}
				c07File(c, f)
			}
		}
	case "pre-read":
		for _, x := range [][]byte{[]byte("plain text"), []byte("text with \x00 inside"), {}, []byte("\xef\xbb\xbfbom\x00"), []byte("{\"a\":1}"), {0x00}, []byte("x")} {
			for _, l := range []uint32{0, 3072, 4, uint32(len(x))} {
				for _, e := range []string{"DetectReaderPreRead", "DetectReaderPreReadText"} {
					c07Judge(c, "pre-read", x, l, e, fmt.Sprintf("pre|%d|%d|%s", len(x), l, e))
				}
			}
		}
	case "counts":
		// a binary data byte counts however often it occurs: exact powers of two (counters that
		// wrap), and byte-order marks of encodings the statement does not list followed by binary data
		for _, n := range []int{255, 256, 257, 65535, 65536, 65537, 131072, 1 << 20} {
			for _, v := range []byte{0x00, 0x01, 0x1F} {
				x := append(append([]byte("some clean text in front\n"), bytes.Repeat([]byte{v}, n)...), " and clean text behind\n"...)
				for _, l := range []uint32{0, uint32(len(x)), 1 << 22} {
					c07Judge(c, "counts", x, l, "Detect", fmt.Sprintf("counts|%d|%02x|%d", n, v, l))
				}
				// two different binary values, each an exact multiple of 65536
				if n == 65536 {
					y := append(append([]byte("t "), bytes.Repeat([]byte{v, v ^ 0x02}, n)...), " t"...)
					c07Judge(c, "counts", y, 0, "Detect", "")
				}
			}
		}
		otherMarks := [][]byte{{0x84, 0x31, 0x95, 0x33}, {0x2B, 0x2F, 0x76, 0x38}, {0x2B, 0x2F, 0x76, 0x2F}, {0xF7, 0x64, 0x4C}, {0xDD, 0x73, 0x66, 0x73}, {0x0E, 0xFE, 0xFF}, {0xFB, 0xEE, 0x28}, {0xFF, 0xFE, 0xFF}, {0xEF, 0xBB}, {0xEF, 0xBF, 0xBE}, {0xFE, 0xFE}}
		for _, mk := range otherMarks {
			for _, tail := range [][]byte{{0x00, 0x01, 'x'}, []byte("text\x00more"), {0x1A}, []byte("clean text only")} {
				x := append(append([]byte{}, mk...), tail...)
				for _, l := range []uint32{0, uint32(len(mk)), uint32(len(mk) + 1), uint32(len(x))} {
					c07Judge(c, "other-marks", x, l, "Detect", fmt.Sprintf("marks|%x|%d", mk, l))
				}
			}
		}
		// DetectFile on a named pipe whose writer delivers a clean first piece, pauses, and then
		// delivers the piece with the binary byte: the header is the first `limit` bytes of the
		// file, not what the first read(2) returned
		for _, cut := range []int{1, 64, 512, 1000} {
			for _, gap := range []int{0, 1, 700} {
				for _, v := range []byte{0x00, 0x1F, 0x08} {
					x := bytes.Repeat([]byte("clean text line\n"), 150)
					off := cut + gap
					x[off] = v
					for _, l := range []uint32{3072, uint32(off + 1), uint32(off), 0} {
						c07Judge(c, "paused-pipe", x, l, fmt.Sprintf("DetectFilePaused:%d", cut), fmt.Sprintf("paused-pipe|%d|%d|%d", cut, gap, l))
						c.Count("paused_pipe_detections", 1)
					}
				}
			}
		}
	case "readers":
		// texts of 5 … 20 KB with one binary byte at offsets around the buffer sizes of the
		// standard readers (16, 512, 4096, 8192), limits on both sides of it
		for _, off := range []int{15, 16, 17, 511, 512, 4095, 4096, 4097, 5000, 8191, 8192, 8193, 12000} {
			x := bytes.Repeat([]byte("clean text line\n"), 1300)
			for _, v := range []byte{0x00, 0x1F, 0x08} {
				x[off] = v
				for _, l := range []uint32{0, 3072, uint32(off), uint32(off + 1), 8192, 16384, 1 << 20} {
					for _, e := range []string{"Detect", "DetectReader", "DetectReader1", "DetectReaderBufio", "DetectReaderBufio16", "DetectReaderPreRead", "DetectReaderPreReadText"} {
						c07Judge(c, "readers", x, l, e, fmt.Sprintf("readers|%d|%d|%s", off, l, e))
					}
				}
			}
			x[off] = 'x'
		}
	case "random":
		alph := []byte{0x00, 0x01, 0x08, 0x09, 0x0A, 0x0B, 0x0C, 0x0D, 0x0E, 0x1A, 0x1B, 0x1C, 0x1F, 0x20, 'a', '{', '<', ',', 0x7F, 0x80, 0xEF, 0xBB, 0xBF, 0xFE, 0xFF}
		n := b.N
		for i := 0; i < n; i++ {
			ln := 1 + c.Rand.Intn(24)
			x := make([]byte, ln)
			nbin := 0
			for j := range x {
				if c.Rand.Intn(6) == 0 {
					x[j] = alph[c.Rand.Intn(len(alph))]
				} else {
					x[j] = byte(0x20 + c.Rand.Intn(0x5f))
				}
				if c07IsBinByte(x[j]) {
					nbin++
				}
			}
			l := uint32(c.Rand.Intn(ln + 3))
			entry := "Detect"
			if i%7 == 0 {
				entry = "DetectReader1"
			}
			c07Judge(c, "random", x, l, entry, fmt.Sprintf("rnd|%d|%d|%v", minInt(nbin, 3), minInt(ln, 8), l == 0 || int(l) >= ln))
		}
	}
}

func init() {
	fw.Register(&fw.Prop{
		ID:    "C07",
		Level: "exploration",
		Rule: "cases = base texts (ascii, utf-8, latin-1, json, csv, html, xml, shebang, …, empty, 1-2 bytes, >limit) with each of the 256 byte values replaced/inserted at every position (all positions for bases <= 64 bytes) x limits placing the byte inside / last-inside / just outside the examined header; the 5 BOMs, their proper prefixes and one-bit near misses followed by binary bytes; every seed of the corpus alone, truncated, BOM-prefixed, sanitised and re-injected; long clean texts whose first binary byte sits at offsets 4 KiB … 2 MiB; random strings.  144 texts are sent through DetectFile on a named pipe whose writer delivers a clean first piece (1 / 64 / 512 / 1000 bytes), pauses 20 ms and then delivers the piece holding the binary byte (0 / 1 / 700 bytes behind the cut), with limits on both sides of that byte." +
			"A case is non-trivial when its examined header holds a byte outside printable ASCII (so the byte-class predicate has something to decide); distinct = distinct (family, base kind, byte value, position class, limit relation) tuples.",
		Assumptions: []string{
			"oracle byte ranges and BOM table are hard-coded from the property statement, not taken from the library",
			"linux/amd64, Go runtime as installed",
		},
		Plan: func(tier string, seed int64) []fw.Batch {
			var bs []fw.Batch
			bs = append(bs, batches("inject", 12, 0, 900)...)
			bs = append(bs, batches("bom", 2, 0, 900)...)
			bs = append(bs, batches("seeds", 4, 0, 900)...)
			bs = append(bs, batches("huge", 1, 0, 900)...)
			bs = append(bs, batches("files", 1, 0, 900)...)
			bs = append(bs, batches("readers", 1, 0, 900)...)
			bs = append(bs, batches("counts", 1, 0, 900)...)
			bs = append(bs, batches("pre-read", 1, 0, 900)...)
			bs = append(bs, batches("utf16-like", 1, 0, 900)...)
			n := 100000
			if tier == "thorough" {
				n = 15000000
			}
			bs = append(bs, batches("random", 4, n, 900)...)
			return bs
		},
		Run: c07Run,
		Replay: func(c *fw.Ctx, payload json.RawMessage) {
			ic, err := replayInCase(payload)
			if err != nil {
				fmt.Println("bad payload:", err)
				return
			}
			if strings.HasPrefix(ic.Entry, "DetectFile:") {
				// the file is read again: procfs content belongs to the process
				if cur, err := os.ReadFile(strings.TrimPrefix(ic.Entry, "DetectFile:")); err == nil {
					ic.In = cur
				} else {
					f := filepath.Join(os.TempDir(), fmt.Sprintf("verif-c07-replay-%d.bin", os.Getpid()))
					os.WriteFile(f, ic.In, 0o600)
					defer os.Remove(f)
					ic.Entry = "DetectFile:" + f
				}
			}
			c07Judge(c, ic.Kind, ic.In, ic.Limit, ic.Entry, "")
		},
		Finish: func(a *fw.Agg) error {
			if a.Counters["oracle_T_true"] == 0 || a.Counters["oracle_T_false"] == 0 || a.Counters["verdict_text"] == 0 || a.Counters["verdict_binary"] == 0 {
				return fmt.Errorf("workload did not produce both classes (T true %d, T false %d, text %d, binary %d)", a.Counters["oracle_T_true"], a.Counters["oracle_T_false"], a.Counters["verdict_text"], a.Counters["verdict_binary"])
			}
			return nil
		},
	})
}
