package props

import (
	"archive/tar"
	"bytes"
	stdjson "encoding/json"
	"fmt"
	"github.com/gabriel-vasile/mimetype"
	"math/rand"
	"strings"
	"time"

	"verifharness/internal/fw"
	"verifharness/internal/lib"
)

// C18 — tar detection tracks header checksum validity.
//
// Forward: every archive written by archive/tar (USTAR, PAX, GNU) is reported
// as application/x-tar unless the reported root-level format has priority over tar (the 22 root formats in
// front of tar at the verified commit, pinned; names such as BZh… / xar!… that begin like
// LOWER-priority formats must still be tar). Corruption: every single-byte change of the first block
// outside the checksum field (504 positions x 255 values, exhaustive per
// archive) makes it no longer reported as tar.

type c18Payload struct {
	Kind  string `json:"kind"`
	In    []byte `json:"in"`
	Limit uint32 `json:"limit"`
	Pos   int    `json:"corrupt_pos"` // -1: forward case
	Val   int    `json:"corrupt_val"`
	InQ   string `json:"in_quoted"`
	Entry string `json:"entry,omitempty"`
}

var c18Names = []string{strings.Repeat("d", 60) + "/gpkg-1/" + strings.Repeat("f", 70), "dir/gpkg-1/" + strings.Repeat("g", 95), "BZhang/report.doc", "xar!/readme", "wOFF/font", "\x1f\x8b.gz", "Rar!/x", "fLaC", "a.txt", "dir/", "src/main.go", "README", "ü/ö.txt", "日本語.txt", "PK\x03\x04.bin", "%PDF-1.4.pdf", "MZ", "\x7fELF", "GIF89a", "ID3", "BM", "long/" + strings.Repeat("n", 90), strings.Repeat("p/", 60) + "deep.txt", strings.Repeat("x", 100), strings.Repeat("y", 101), "portage/gpkg-1.0.3/README", "docs/%PDF-1.7 notes.txt", "x/PK\x03\x04/y", "a/MZ", "spec %PDF-", "{\"type\":\"Feature\"}", "<svg>.txt", "<html>x", "a/gpkg-1x", "gpkg-1", "x/gpkg-2", " lead", "trail ", "-dash", "#hash", "{\"a\":1}", "<html>", "name with spaces.tar"}

func c18Header(r *rand.Rand) *tar.Header {
	h := &tar.Header{
		Name:   c18Names[r.Intn(len(c18Names))],
		Mode:   []int64{0o644, 0o755, 0o777, 0, 0o4755, 0o100644}[r.Intn(6)],
		Uid:    []int{0, 1000, 65534, 2097151, 2097152, 1 << 30}[r.Intn(6)],
		Gid:    []int{0, 100, 2097151, 2097152, 1<<31 - 1}[r.Intn(5)],
		Uname:  []string{"", "root", "user", "üser", strings.Repeat("u", 31), strings.Repeat("u", 40)}[r.Intn(6)],
		Gname:  []string{"", "wheel", "grüppe"}[r.Intn(3)],
		Format: []tar.Format{tar.FormatUSTAR, tar.FormatPAX, tar.FormatGNU, tar.FormatUnknown}[r.Intn(4)],
	}
	h.ModTime = time.Unix([]int64{0, 1, 1700000000, 1<<33 - 1, 1 << 33, 1 << 40, -1, -86400 * 365, -1 << 33}[r.Intn(9)], 0)
	if r.Intn(10) == 0 {
		// negative ids exist in the wild (nobody = -2 on some systems): base-256 with a leading 0xff in GNU archives
		h.Uid, h.Gid, h.Format = []int{-1, -2, -65534}[r.Intn(3)], []int{-1, -2, 100}[r.Intn(3)], tar.FormatGNU
	}
	if r.Intn(5) == 0 {
		// member names of every length around the sizes where a long-name / pax record fills whole 512-byte records
		n := []int{99, 100, 101, 155, 156, 255, 256, 257}[r.Intn(8)]
		if r.Intn(2) == 0 {
			n = []int{500, 1010}[r.Intn(2)] + r.Intn(25)
		}
		h.Name = strings.Repeat("dir/", n/4)[:n-5] + "f.txt"
	}
	if r.Intn(4) == 0 {
		h.ModTime = time.Unix(1700000000, 123456789)
		h.AccessTime = time.Unix(1600000000, 5)
		h.Format = tar.FormatPAX
	}
	switch r.Intn(9) {
	case 0:
		h.Typeflag = tar.TypeDir
		if !strings.HasSuffix(h.Name, "/") {
			h.Name += "/"
		}
	case 1:
		h.Typeflag = tar.TypeSymlink
		h.Linkname = []string{"target", "../x", strings.Repeat("l", 100), strings.Repeat("l", 150), "pkgs/gpkg-1", "x/gpkg-1"}[r.Intn(6)]
	case 2:
		h.Typeflag = tar.TypeLink
		h.Linkname = "orig"
	case 3:
		h.Typeflag = tar.TypeChar
		h.Devmajor, h.Devminor = int64(r.Intn(300)), int64(r.Intn(1<<21))
	case 4:
		h.Typeflag = tar.TypeBlock
		h.Devmajor, h.Devminor = 8, int64(r.Intn(16))
	case 5:
		h.Typeflag = tar.TypeFifo
	default:
		h.Typeflag = tar.TypeReg
		h.Size = []int64{0, 1, 511, 512, 513, 100000, 8589934591, 8589934592, 1 << 40}[r.Intn(9)]
	}
	if h.Typeflag != tar.TypeReg && r.Intn(3) == 0 {
		// header-only members may record a size (pax / star store the size of the link target
		// for hard links); no data records follow them
		h.Size = []int64{1, 511, 512, 700, 1024, 2000, 4096}[r.Intn(7)]
	}
	if r.Intn(6) == 0 {
		h.PAXRecords = map[string]string{"VERIF.key": "value", "comment": "é"}
		h.Format = tar.FormatPAX
	}
	return h
}

// c18Archive returns the bytes a tar writer emits for the header (plus body and
// trailer when the body is small).
func c18Archive(r *rand.Rand) ([]byte, string) {
	for {
		h := c18Header(r)
		var buf bytes.Buffer
		w := tar.NewWriter(&buf)
		if err := w.WriteHeader(h); err != nil {
			continue // the writer refuses this combination (not a conforming output)
		}
		if h.Typeflag == tar.TypeReg && h.Size <= 100000 {
			body := make([]byte, h.Size)
			for i := range body {
				body[i] = byte(r.Intn(256))
			}
			if r.Intn(3) == 0 {
				// the first member is itself a file of another format (its signature sits at offset 512)
				sigs := []string{"%PDF-1.7\n", "PK\x03\x04\x14\x00", "\x89PNG\x0d\x0a\x1a\x0a", "{\"type\":\"Feature\"}", "<html><body>", "GIF89a", "\x7fELF", "MZ\x90\x00", "ustar\x0000", "Rar!\x1a\x07", "ftypisom"}
				copy(body, sigs[r.Intn(len(sigs))])
			}
			w.Write(body)
			// a second member sometimes
			if r.Intn(2) == 0 {
				h2 := &tar.Header{Name: "second.txt", Mode: 0o644, Size: 3}
				if w.WriteHeader(h2) == nil {
					w.Write([]byte("abc"))
				}
			}
			w.Close()
		} else if h.Typeflag != tar.TypeReg && h.Size > 0 {
			// the header-only member is followed at once by a regular member with data
			body := make([]byte, 1500+r.Intn(3000))
			for i := range body {
				body[i] = byte(1 + r.Intn(255))
			}
			if w.WriteHeader(&tar.Header{Name: "data.bin", Mode: 0o644, Size: int64(len(body))}) == nil {
				w.Write(body)
			}
			w.Close()
		} else {
			w.Flush()
		}
		b := buf.Bytes()
		if len(b) < 512 {
			continue
		}
		if len(b) > 6000 {
			b = b[:6000]
		}
		// names ending in "/gpkg-1" are the library's deliberate Gentoo exclusion (see KNOWN_FINDINGS)
		if bytes.Contains(b[:100], []byte("/gpkg-1\x00")) {
			continue
		}
		fm := fmt.Sprintf("fmt=%v|type=%c|hi=%v", h.Format, h.Typeflag, hasHigh(b[:512]))
		if h.Typeflag != tar.TypeReg && h.Size > 0 {
			fm += "|header-only-with-size"
		}
		return append([]byte(nil), b...), fm
	}
}

func hasHigh(b []byte) bool {
	for _, c := range b {
		if c >= 0x80 {
			return true
		}
	}
	return false
}

var c18Predecessors = []string{"BM\x36\x00\x0c\x00\x00\x00\x00\x00\x36\x00\x00\x00\x28\x00", "ID3\x03\x00\x00\x00\x00\x00\x0a", "BZh91AY&SY", "fLaC\x00\x00\x00\x22", "wOFF\x00\x01\x00\x00", "Rar!\x1a\x07\x00", "\x1f\x8b\x08\x00", "xar!\x00\x1c", "GIF89a\x01\x00", "plain text", "{\"a\":1}"}

func c18Forward(c *fw.Ctx, t *lib.Tree, kind string, a []byte, tag string) bool {
	good := true
	for _, lim := range []uint32{0, 3072, 512, uint32(len(a)), uint32(len(a) + 1)} {
		entry := pickEntry(c)
		if forcedEntry == "" && c.Rand.Intn(40) == 0 {
			entry = "DetectFileSymlink"
		}
		if forcedEntry == "" && c.Rand.Intn(40) == 0 {
			entry = "DetectFilePipe"
			c.Count("archives_detected_through_a_named_pipe", 1)
		}
		p := c18Payload{Kind: kind, In: a, Limit: lim, Pos: -1, InQ: fw.Quote(a[:minInt(len(a), 110)], 110), Entry: entry}
		key := fw.InputKey(a, lim, entry)
		c.Trace(func() (string, any) { return key, p })
		var ch lib.Chain
		if c.Rand.Intn(3) == 0 {
			// the call before this one saw another kind of file (a format of lower priority than tar
			// whose magic the member name may start with): nothing of it may be remembered
			pre := c18Predecessors[c.Rand.Intn(len(c18Predecessors))]
			mimetype.SetLimit(3072)
			mimetype.Detect([]byte(pre))
		}
		if !c.Guard(key, func() any { return p }, func() { ch = lib.ChainOf(detectEntry(a, lim, entry)) }) {
			continue
		}
		c.Eval(1)
		// "reported as application/x-tar": the reported type itself, not merely an ancestor
		// (a sub-format of tar that captures ordinary archives is another type)
		if lf := ch.Leaf(); lf.T == "application/x-tar" && lf.Ext == ".tar" {
			c.Count("archives_reported_as_tar", 1)
			continue
		}
		good = false
		path := t.PathOfChain(ch)
		tarID := t.Find("application/x-tar", ".tar")
		pinned := false
		if path != nil && len(path) >= 2 {
			for _, n := range pinnedBeforeTar {
				if t.Nodes[path[1]].MIME == n {
					pinned = true
				}
			}
		}
		if pinned && t.ChildIndex(path[1]) < t.ChildIndex(tarID) {
			if ok, sig := exceptionJustified(t.Nodes[path[1]].MIME, lib.Header(a, lim)); !ok {
				c.Violate("tar-not-recognised", key, fmt.Sprintf("archive written by archive/tar (%s) reported as the higher-priority format %s whose signature its leading bytes do not carry (%s); result %s; first bytes %s", tag, t.Nodes[path[1]].MIME, sig, ch, fw.Quote(a[:100], 100)), p)
				continue
			}
			c.Count("exception_higher_priority_format", 1)
			c.SetAdd("exception_formats", t.Nodes[path[1]].MIME)
			continue
		}
		c.Violate("tar-not-recognised", key, fmt.Sprintf("archive written by archive/tar (%s) reported as %s with limit %d; first bytes %s", tag, ch, lim, fw.Quote(a[:100], 100)), p)
	}
	return good
}

func c18Corrupt(c *fw.Ctx, a []byte, tag string) {
	x := append([]byte(nil), a...)
	if len(x) > 1024 {
		x = x[:1024]
	}
	n := int64(0)
	for pos := 0; pos < 512; pos++ {
		if pos >= 148 && pos < 156 {
			continue
		}
		orig := x[pos]
		for v := 0; v < 256; v++ {
			if byte(v) == orig {
				continue
			}
			x[pos] = byte(v)
			if pos%64 == 0 && v == 0 {
				c.Trace(func() (string, any) {
					return fw.InputKey(x, 3072, "Detect"), c18Payload{Kind: "corruption", In: a, Limit: 3072, Pos: pos, Val: v}
				})
			}
			ch := lib.ChainOf(lib.Detect(x, 3072))
			n++
			if ch.HasLink("application/x-tar", ".tar") {
				c.Violate("corrupted-header-still-tar", fw.InputKey(x, 3072, "Detect"),
					fmt.Sprintf("first header block with byte %d changed from 0x%02x to 0x%02x (outside the checksum field) is still reported as %s; archive %s", pos, orig, v, ch, tag),
					c18Payload{Kind: "corruption", In: append([]byte(nil), a...), Limit: 3072, Pos: pos, Val: v, InQ: fw.Quote(a[:100], 100)})
			}
		}
		x[pos] = orig
	}
	// the same claim under read limits that cut inside the first block (sampled)
	for _, lim := range []uint32{1, 100, 257, 263, 265, 300, 400, 500, 511, 512} {
		for k := 0; k < 40; k++ {
			pos := c.Rand.Intn(512)
			if pos >= 148 && pos < 156 {
				continue
			}
			orig := x[pos]
			x[pos] = orig ^ byte(1+c.Rand.Intn(255))
			ch := lib.ChainOf(lib.Detect(x, lim))
			n++
			if ch.HasLink("application/x-tar", ".tar") {
				c.Violate("corrupted-header-still-tar", fw.InputKey(x, lim, "Detect"),
					fmt.Sprintf("with limit %d the first header block with byte %d changed from 0x%02x to 0x%02x is reported as %s; archive %s", lim, pos, orig, x[pos], ch, tag),
					c18Payload{Kind: "corruption", In: append([]byte(nil), a...), Limit: lim, Pos: pos, Val: int(x[pos]), InQ: fw.Quote(a[:100], 100)})
			}
			x[pos] = orig
		}
	}
	c.Eval(n)
	c.Count("single_byte_corruptions", n)
	c.Disjoint(1)
}

// c18KnownGpkg is the fixed regression input of the known finding: a USTAR
// archive whose only member is named "pkg/gpkg-1" (Gentoo GLEP 78 marker).
func c18KnownGpkg() []byte {
	var buf bytes.Buffer
	w := tar.NewWriter(&buf)
	w.WriteHeader(&tar.Header{Name: "pkg/gpkg-1", Mode: 0o644, Size: 5, Format: tar.FormatUSTAR, ModTime: time.Unix(0, 0)})
	w.Write([]byte("gpkg\n"))
	w.Close()
	return buf.Bytes()
}

// c18KnownTar is a small deterministic USTAR archive (used as a probe by C04).
func c18KnownTar() []byte {
	var buf bytes.Buffer
	w := tar.NewWriter(&buf)
	w.WriteHeader(&tar.Header{Name: "hello.txt", Mode: 0o644, Size: 6, Format: tar.FormatUSTAR, ModTime: time.Unix(0, 0)})
	w.Write([]byte("hello\n"))
	w.Close()
	return buf.Bytes()
}

func c18Run(c *fw.Ctx, b fw.Batch) {
	t := baseTree()
	r := c.Rand
	if b.Kind == "known" {
		a := c18KnownGpkg()
		ch := lib.ChainOf(lib.Detect(a, 3072))
		c.Eval(1)
		c.Count("known_finding_regression_input_replayed", 1)
		if lf := ch.Leaf(); lf.T != "application/x-tar" || lf.Ext != ".tar" {
			c.Violate("tar-not-recognised", fw.InputKey(a, 3072, "Detect"), fmt.Sprintf("USTAR archive whose first member is named pkg/gpkg-1 reported as %s (deliberate Gentoo gpkg exclusion)", ch), c18Payload{Kind: "known-gpkg", In: a, Limit: 3072, Pos: -1})
		}
		return
	}
	if b.Idx == 0 {
		// member names whose GNU long-name / pax path record fills whole 512-byte records
		// (name + NUL = 512 → 511 bytes; "NNN path=…\n" = 512 → 502 bytes; the same for 1024)
		for _, f := range []tar.Format{tar.FormatGNU, tar.FormatPAX} {
			for _, n := range []int{101, 255, 256, 500, 501, 502, 503, 510, 511, 512, 513, 1012, 1013, 1014, 1022, 1023, 1024, 1025} {
				var buf bytes.Buffer
				w := tar.NewWriter(&buf)
				name := strings.Repeat("dir/", n/4+2)[:n-5] + "f.txt"
				if w.WriteHeader(&tar.Header{Name: name, Mode: 0o644, Size: 600, Format: f, ModTime: time.Unix(1700000000, 0)}) != nil {
					continue
				}
				w.Write(bytes.Repeat([]byte("member data "), 50))
				w.Close()
				c18Forward(c, t, "long-name", buf.Bytes(), fmt.Sprintf("fmt=%v|namelen=%d", f, n))
				c.Count("long_name_archives", 1)
			}
		}
	}
	for i := 0; i < b.N; i++ {
		a, tag := c18Archive(r)
		if c18Forward(c, t, "archive", a, tag) {
			c18Corrupt(c, a, tag)
			c.Distinct("arch|" + tag)
		}
		if c.WantSample() && r.Intn(20) == 0 {
			c.Sample(map[string]any{"archive_first_100_bytes": fw.Quote(a[:100], 100), "bytes": len(a), "writer": tag, "corruptions_tried": 504 * 255})
		}
	}
}

func init() {
	fw.Register(&fw.Prop{
		ID:    "C18",
		Level: "exploration",
		Rule: "archives are written by archive/tar from random headers: formats USTAR / PAX / GNU / auto, 28 member names (long, UTF-8, names that begin like higher-priority formats (PK\\x03\\x04, %PDF-, MZ, ELF, GIF89a) and like lower-priority ones (BZh, xar!, wOFF, gzip, Rar!, fLaC, ID3, BM); names containing /gpkg-1 followed by further characters, names that contain such signatures away from the start), member data that begins with another format's signature (PDF, zip, PNG, JSON, HTML, ELF …: it sits at offset 512), modes, uid/gid up to and beyond 2^21 (base-256 fields), sizes 0 … 2^40 (base-256 above 8 GiB), mtimes incl. > 2^33, before 1970 and sub-second (PAX), negative ids (GNU base-256 with leading 0xff), member names of 99 … 257 and 500 … 1034 bytes, all type flags with link names and device numbers, PAX records, one or two members; each is detected at limits {0, 3072, 512, len, len+1}; then for the first block EVERY position outside 148-155 x EVERY other byte value (504 x 255 = 128 520 corruptions, exhaustive per archive) must not be reported as tar; a sample of corruptions is repeated under read limits that cut inside the first block (1 … 512).  A third of the header-only first members (directory, links, devices, fifo) record a non-zero size and are followed at once by a regular member with data; one archive in 40 is detected through DetectFile on a named pipe that a writer goroutine fills and closes." +
			"non-trivial = an archive that is reported as tar and was put through the exhaustive corruption sweep (counted once per archive, archives are distinct by construction); plus distinct (format, type flag, has high bytes) classes.",
		Assumptions: []string{
			"archive/tar is the conforming writer; header combinations it refuses are not archives",
			"member names ending in '/gpkg-1' (NUL-terminated in the name field) are excluded from the generator: the library deliberately reports Gentoo GLEP 78 packages as not-tar; one fixed such input is replayed as the known finding listed in KNOWN_FINDINGS.txt",
		},
		Exhaustive: func(tier string) bool { return false },
		Plan: func(tier string, seed int64) []fw.Batch {
			n := 12
			if tier == "thorough" {
				n = 800
			}
			bs := batches("archives", 16, n, 3000)
			bs = append(bs, fw.Batch{Name: "known-gpkg", Kind: "known", TimeoutS: 300})
			return bs
		},
		Run: c18Run,
		Replay: func(c *fw.Ctx, payload stdjson.RawMessage) {
			var p c18Payload
			if err := stdjson.Unmarshal(payload, &p); err != nil {
				fmt.Println("bad payload:", err)
				return
			}
			forcedEntry = p.Entry
			if p.Pos < 0 {
				c18Forward(c, baseTree(), p.Kind, p.In, "replay")
				return
			}
			x := append([]byte(nil), p.In...)
			x[p.Pos] = byte(p.Val)
			if ch := lib.ChainOf(lib.Detect(x, p.Limit)); ch.HasLink("application/x-tar", ".tar") {
				c.Violate("corrupted-header-still-tar", fw.InputKey(x, p.Limit, "Detect"), "corrupted header still reported as "+ch.String(), p)
			}
		},
		Finish: func(a *fw.Agg) error {
			if a.Counters["single_byte_corruptions"] < 1000000 {
				return fmt.Errorf("only %d corruptions were executed", a.Counters["single_byte_corruptions"])
			}
			return nil
		},
	})
}
