package props

import (
	stdjson "encoding/json"
	"fmt"
	"math/rand"
	"mime"
	"strings"

	"github.com/gabriel-vasile/mimetype"

	"verifharness/internal/fw"
)

// C12 — declared charsets are honoured.
//
// The generator knows the declared label L. Expected charset parameter:
//   HTML: the BOM's charset when a UTF-8 BOM is present, else "utf-8" when
//         lower(L) starts with "utf-16", else lower(L)
//   XML 1.0: lower(L)
// judged on results whose type is text/html / text/xml, at limits that keep
// the whole declaration inside the examined header.

const c12LabelChars = "abcdefghijklmnopqrstuvwxyzABCDEFGHIJKLMNOPQRSTUVWXYZ0123456789!#$%*+-.^_|~{}"

var c12RealLabels = []string{"x-user-defined", "X-User-Defined", "replacement", "unicode-1-1-utf-8", "x-mac-roman", "macintosh", "ibm866", "iso-2022-jp", "hz-gb-2312", "utf-7", "x-cp1252", "ascii", "latin1", "l1", "ANSI_X3.4-1968", "csisolatin1", "utf8", "unicode", "ucs-2", "utf-8", "UTF-8", "Utf-8", "iso-8859-1", "ISO-8859-15", "windows-1252", "Windows-1251", "koi8-r", "KOI8-U", "shift_jis", "Shift_JIS", "euc-jp", "EUC-KR", "gb2312", "GBK", "gb18030", "big5", "Big5-HKSCS",
	"us-ascii", "latin1", "l1", "macintosh", "ibm866", "tis-620", "utf-16", "UTF-16LE", "utf-16be", "UTF-16", "utf-7", "utf-32", "x-mac-cyrillic", "iso-2022-jp", "windows-874", "cp1252", "unicode-1-1-utf-8"}

func c12Label(r *rand.Rand, xml bool) string {
	if r.Intn(3) == 0 {
		return c12RealLabels[r.Intn(len(c12RealLabels))]
	}
	n := 1 + r.Intn(12)
	if r.Intn(15) == 0 {
		n = 40 + r.Intn(120)
	}
	b := make([]byte, n)
	for i := range b {
		if xml {
			const enc = "abcdefghijklmnopqrstuvwxyzABCDEFGHIJKLMNOPQRSTUVWXYZ0123456789._-"
			if i == 0 {
				b[i] = enc[r.Intn(52)]
			} else {
				b[i] = enc[r.Intn(len(enc))]
			}
		} else {
			b[i] = c12LabelChars[r.Intn(len(c12LabelChars))]
		}
	}
	if !xml && r.Intn(8) == 0 {
		return "utf-16" + string(b[:minInt(3, len(b))])
	}
	return string(b)
}

func lowerASCII(s string) string {
	b := []byte(s)
	for i, c := range b {
		if c >= 'A' && c <= 'Z' {
			b[i] = c + 0x20
		}
	}
	return string(b)
}

func randCase(r *rand.Rand, s string) string {
	b := []byte(s)
	for i, c := range b {
		if c >= 'a' && c <= 'z' && r.Intn(2) == 0 {
			b[i] = c - 0x20
		}
	}
	return string(b)
}

type c12Doc struct {
	data    []byte
	declEnd int // offset just past the '>' / '?>' of the declaration
	label   string
	expect  string
	syntax  string
	prolog  string
	typ     string // text/html or text/xml
	assert  bool   // false: informational family
}

var c12Starts = []string{"<!DOCTYPE html>", "<!doctype HTML>", "<html>", "<HTML lang=\"en\">", "<head>", "<html><head>", "<!DOCTYPE html>\n<html>\n<head>\n", "<title>t</title>", "<body>", "<div>", "<p>", "<script>var a=1;</script>", "<style>p{}</style>"}

func c12Decoy(r *rand.Rand) string {
	d := []string{
		"<!-- <meta charset=\"fake-comment\"> -->",
		"<script>document.write('<meta charset=\"fake-script\">');</script>",
		"<style>/* <meta charset=fake-style> */</style>",
		"<title><meta charset=fake-title></title>",
		"<textarea><meta charset=\"fake-textarea\"></textarea>",
		"<meta name=\"description\" content=\"about charset=fake-desc things\">",
		"<meta http-equiv=\"refresh\" content=\"5; url=http://x/?charset=fake-refresh\">",
		"<meta property=\"og:title\" content=\"charset=fake-og\">",
		"<meta name=\"viewport\" content=\"width=device-width, initial-scale=1\">",
		"<link rel=\"stylesheet\" href=\"a.css?charset=fake-link\">",
		"<!-- plain comment -->",
		"\n  ",
		"<base href=\"/\">",
		"<meta name=\"description\" content=\"How to declare the charset of a page\">",
		"<meta name=\"keywords\" content=\"charset; charset , charset\">",
		"<meta http-equiv=\"Content-Type\" content=\"text/html\">",
		"<meta http-equiv=\"Content-Type\" content=\"text/html\"><meta name=\"description\" content=\"about charset=fake-after-pragma\">",
		"<meta http-equiv=\"X-UA-Compatible\" content=\"IE=edge\">",
	}
	return d[r.Intn(len(d))]
}

func c12HTML(r *rand.Rand, long bool) c12Doc {
	var d c12Doc
	d.typ = "text/html"
	d.assert = true
	d.label = c12Label(r, false)
	var sb strings.Builder
	bom := r.Intn(8) == 0
	if bom {
		sb.WriteString("\xEF\xBB\xBF")
	}
	if r.Intn(4) == 0 {
		sb.WriteString([]string{" ", "\n", "\r\n\t", "  \n", "\x0c", "\t\x0c \r"}[r.Intn(6)])
	}
	st := c12Starts[r.Intn(len(c12Starts))]
	if r.Intn(3) == 0 {
		st = randCase(r, st)
	}
	sb.WriteString(st)
	d.prolog = st
	for k := r.Intn(4); k > 0; k-- {
		dc := c12Decoy(r)
		sb.WriteString(dc)
		d.prolog += "+" + dc[:minInt(12, len(dc))]
	}
	if long {
		// one token of more than 4 KiB before the declaration
		rep := 1
		if r.Intn(6) == 0 {
			rep = 15 // one token of more than 64 KiB
		}
		if hugeTokens && r.Intn(3) == 0 {
			rep = 300 // one token of more than 1 MiB
		}
		if r.Intn(2) == 0 {
			sb.WriteString("<!-- " + strings.Repeat("long comment ", 400*rep) + "-->")
		} else {
			sb.WriteString("<script>" + strings.Repeat("var x = 1; ", 500*rep) + "</script>")
		}
		d.prolog += "+long-token"
	}
	meta := randCase(r, "meta")
	csAttr := randCase(r, "charset")
	eq := []string{"=", " = ", "= ", " ="}[r.Intn(4)]
	end := []string{">", "/>", " >", " />"}[r.Intn(4)]
	L := d.label
	switch syn := r.Intn(9); syn {
	case 0:
		d.syntax = "charset-unquoted"
		if eq != "=" {
			eq = "="
		}
		e := end
		if strings.HasPrefix(e, "/") { // an unquoted value would swallow the slash
			e = " " + e
		}
		fmt.Fprintf(&sb, "<%s %s%s%s%s", meta, csAttr, eq, L, e)
	case 1:
		d.syntax = "charset-dq"
		fmt.Fprintf(&sb, "<%s %s%s\"%s\"%s", meta, csAttr, eq, L, end)
	case 2:
		d.syntax = "charset-sq"
		fmt.Fprintf(&sb, "<%s %s%s'%s'%s", meta, csAttr, eq, L, end)
	case 3:
		d.syntax = "charset-dq-other-attrs"
		fmt.Fprintf(&sb, "<%s id=\"m\" %s%s\"%s\" data-x=\"charset=decoy\"%s", meta, csAttr, eq, L, end)
	case 4:
		d.syntax = "pragma-equiv-first"
		fmt.Fprintf(&sb, "<%s %s%s\"%s\" %s%s\"text/html; %s=%s\"%s", meta, randCase(r, "http-equiv"), eq, randCase(r, "Content-Type"), randCase(r, "content"), eq, randCase(r, "charset"), L, end)
	case 5:
		d.syntax = "pragma-content-first"
		fmt.Fprintf(&sb, "<%s %s%s\"text/html; %s=%s\" %s%s\"%s\"%s", meta, randCase(r, "content"), eq, randCase(r, "charset"), L, randCase(r, "http-equiv"), eq, randCase(r, "content-type"), end)
	case 6:
		d.syntax = "pragma-charset-spaces"
		fmt.Fprintf(&sb, "<%s %s='Content-Type' %s='text/html;%s = %s ; x=y'%s", meta, randCase(r, "http-equiv"), randCase(r, "content"), randCase(r, "charset"), L, end)
	case 7:
		d.syntax = "pragma-quoted-inside"
		fmt.Fprintf(&sb, "<%s %s=\"content-type\" %s=\"text/html; %s='%s'\"%s", meta, randCase(r, "http-equiv"), randCase(r, "content"), randCase(r, "charset"), L, end)
	default:
		d.syntax = "pragma-unquoted-attrs"
		fmt.Fprintf(&sb, "<%s %s=Content-Type %s=\"text/html;%s=%s\"%s", meta, randCase(r, "http-equiv"), randCase(r, "content"), randCase(r, "charset"), L, end)
	}
	d.declEnd = sb.Len()
	sb.WriteString([]string{"", "</head><body>hello</body></html>", "<title>x</title>\n<p>caf\xE9</p>", "\n<body>\xC3\xA9\xFF text"}[r.Intn(4)])
	if r.Intn(5) == 0 {
		sb.WriteString(strings.Repeat("<p>filler paragraph</p>\n", 150))
	}
	d.data = []byte(sb.String())
	low := lowerASCII(L)
	switch {
	case bom:
		d.expect = "utf-8"
		d.syntax += "+bom"
	case strings.HasPrefix(low, "utf-16"):
		d.expect = "utf-8"
	default:
		d.expect = low
	}
	return d
}

func c12XML(r *rand.Rand) c12Doc {
	var d c12Doc
	d.typ = "text/xml"
	d.assert = true
	d.label = c12Label(r, true)
	var sb strings.Builder
	if r.Intn(4) == 0 {
		sb.WriteString([]string{" ", "\n", "\r\n", "\t ", "\x0c", "\x0c\n "}[r.Intn(6)])
		d.prolog = "leading-ws"
	}
	q := []string{`"`, `'`}[r.Intn(2)]
	q2 := []string{`"`, `'`}[r.Intn(2)]
	sep := []string{" ", "  ", "\n", "\t", " \r\n "}[r.Intn(5)]
	tail := []string{"", " ", "\n", "  "}[r.Intn(4)]
	target := "xml"
	eqs := "="
	switch fam := r.Intn(12); fam {
	case 0:
		d.assert = false
		d.syntax = "info-space-around-eq"
		eqs = " = "
	case 1:
		d.assert = false
		d.syntax = "info-target-case"
		target = []string{"XML", "Xml", "xMl"}[r.Intn(3)]
	default:
		d.syntax = "decl-" + q + "-sep" + fmt.Sprint(len(sep))
	}
	fmt.Fprintf(&sb, "<?%s version=%s1.0%s%sencoding%s%s%s%s", target, q2, q2, sep, eqs, q, d.label, q)
	if r.Intn(3) == 0 {
		fmt.Fprintf(&sb, "%sstandalone=%s%s%s", sep, q2, []string{"yes", "no"}[r.Intn(2)], q2)
		d.syntax += "+standalone"
	}
	sb.WriteString(tail + "?>")
	d.declEnd = sb.Len()
	sb.WriteString([]string{"", "\n<doc/>", "<root><a>caf\xE9</a></root>", "\n<!-- c -->\n<doc attr=\"v\">text</doc>", "<d>\xC3\xA9</d>"}[r.Intn(5)])
	d.data = []byte(sb.String())
	d.expect = lowerASCII(d.label)
	return d
}

// hugeTokens lets the long-token generator produce tokens of more than 1 MiB (one batch only).
var hugeTokens bool

func c12Judge(c *fw.Ctx, d c12Doc, L uint32) {
	entry := pickEntry(c)
	key := fw.InputKey(d.data, L, entry)
	c.Trace(func() (string, any) { return key, fw.MkInCase(d.syntax, d.data, L, entry, d.expect) })
	var m *mimetype.MIME
	ok := c.Guard(key, func() any { return fw.MkInCase(d.syntax, d.data, L, entry, "panic") }, func() {
		m = detectEntry(d.data, L, entry)
	})
	c.Eval(1)
	if !ok {
		return
	}
	anomalyC02(c, m, nil)
	mt, params, err := mime.ParseMediaType(m.String())
	if err != nil || mt != d.typ {
		c.Count("result_type_not_"+d.typ, 1)
		if d.assert {
			// the generated documents are HTML / XML by construction (one of the known
			// openings after an optional BOM and leading white space, any letter case)
			c.Violate("markup-not-recognised", key,
				fmt.Sprintf("document that starts with %q (after optional BOM / white space) is reported as %s, not %s, so its declared charset %q is not honoured; document %s limit %d", d.prolog, m.String(), d.typ, d.label, fw.Quote(d.data, 120), L),
				fw.InCase{Kind: d.typ, In: d.data, Limit: L, Entry: entry, Aux: d.expect, Note: d.syntax, InQ: fw.Quote(d.data, 160)})
		}
		return
	}
	got := params["charset"]
	if !d.assert {
		if got == d.expect {
			c.Count("informational_"+d.syntax+"_honoured", 1)
		} else {
			c.Count("informational_"+d.syntax+"_not_honoured", 1)
		}
		return
	}
	c.Count("declarations_checked_"+d.typ, 1)
	if got != d.expect {
		c.Violate("declared-charset-not-honoured", key,
			fmt.Sprintf("declared label %q (syntax %s) expected charset=%q, got %q in %s; document %s limit %d", d.label, d.syntax, d.expect, got, m.String(), fw.Quote(d.data, 160), L),
			fw.InCase{Kind: d.typ, In: d.data, Limit: L, Entry: entry, Aux: d.expect, Note: d.syntax, InQ: fw.Quote(d.data, 160)})
	}
	lclass := "generic"
	low := lowerASCII(d.label)
	switch {
	case strings.HasPrefix(low, "utf-16"):
		lclass = "utf-16*"
	case low == "utf-8":
		lclass = "utf-8"
	case len(d.label) > 30:
		lclass = "long"
	case low != d.label:
		lclass = "has-upper"
	case strings.ContainsAny(d.label, "!#$%*+^|~{}"):
		lclass = "punct"
	}
	mode := "whole"
	if L != 0 && int(L) <= len(d.data) {
		mode = "cut"
		if int(L) == d.declEnd {
			mode = "cut-at-decl-end"
		}
	}
	c.Distinct(fmt.Sprintf("%s|%s|%s|%s|%d", d.typ, d.syntax, lclass, mode, strings.Count(d.prolog, "+")))
	if c.WantSample() && len(d.data) < 200 && c.Rand.Intn(3000) == 0 {
		c.Sample(map[string]any{"document": fw.Quote(d.data, 200), "label": d.label, "expected_charset": d.expect, "limit": L, "reported": m.String()})
	}
}

func c12Limits(c *fw.Ctx, d c12Doc) []uint32 {
	ls := []uint32{0, uint32(len(d.data) + 1), uint32(d.declEnd), uint32(len(d.data))}
	if d.declEnd <= 3072 {
		ls = append(ls, 3072)
	}
	for k := 0; k < 4; k++ {
		if len(d.data) > d.declEnd {
			ls = append(ls, uint32(d.declEnd+c.Rand.Intn(len(d.data)-d.declEnd+1)))
		}
	}
	return ls
}

func c12Run(c *fw.Ctx, b fw.Batch) {
	r := c.Rand
	switch b.Kind {
	case "html":
		for i := 0; i < b.N; i++ {
			d := c12HTML(r, false)
			for _, L := range c12Limits(c, d) {
				c12Judge(c, d, L)
			}
		}
	case "html-long":
		for i := 0; i < b.N; i++ {
			d := c12HTML(r, true)
			for _, L := range []uint32{0, uint32(len(d.data) + 1), uint32(d.declEnd), 1 << 20} {
				c12Judge(c, d, L)
			}
		}
		if b.Idx == 0 {
			// a single token of more than 1 MiB in front of the declaration (limit 0 and beyond the end)
			hugeTokens = true
			for i := 0; i < 12; i++ {
				d := c12HTML(r, true)
				if len(d.data) < 1<<20 {
					continue
				}
				for _, L := range []uint32{0, uint32(len(d.data) + 1), uint32(d.declEnd)} {
					c12Judge(c, d, L)
				}
				c.Count("documents_with_a_token_of_more_than_1_MiB", 1)
			}
			hugeTokens = false
		}
	case "xml":
		for i := 0; i < b.N; i++ {
			d := c12XML(r)
			for _, L := range c12Limits(c, d) {
				c12Judge(c, d, L)
			}
		}
	case "labels":
		// every single label character, and every real label, through every syntax family
		for _, ch := range c12LabelChars {
			for k := 0; k < 30; k++ {
				d := c12HTML(r, false)
				// rebuild with the forced label: cheapest is to retry until generated label is replaced
				nd := c12ForceLabel(r, string(ch)+"x", false)
				_ = d
				for _, L := range []uint32{0, uint32(nd.declEnd)} {
					c12Judge(c, nd, L)
				}
			}
		}
		for _, lab := range c12RealLabels {
			for k := 0; k < 40; k++ {
				nd := c12ForceLabel(r, lab, false)
				for _, L := range []uint32{0, uint32(nd.declEnd)} {
					c12Judge(c, nd, L)
				}
				if lab[0] != 'x' || true {
					xd := c12ForceLabel(r, lab, true)
					for _, L := range []uint32{0, uint32(xd.declEnd)} {
						c12Judge(c, xd, L)
					}
				}
			}
		}
	}
}

var c12Forced string

// c12ForceLabel generates a document declaring exactly lab.
func c12ForceLabel(r *rand.Rand, lab string, xml bool) c12Doc {
	for {
		var d c12Doc
		if xml {
			d = c12XML(r)
		} else {
			d = c12HTML(r, false)
		}
		if !strings.Contains(string(d.data), d.label) || strings.Count(string(d.data), d.label) != 1 || len(d.label) < 3 {
			continue
		}
		bom := strings.Contains(d.syntax, "+bom")
		d.data = []byte(strings.Replace(string(d.data), d.label, lab, 1))
		d.declEnd += len(lab) - len(d.label)
		d.label = lab
		low := lowerASCII(lab)
		switch {
		case xml:
			d.expect = low
		case bom:
			d.expect = "utf-8"
		case strings.HasPrefix(low, "utf-16"):
			d.expect = "utf-8"
		default:
			d.expect = low
		}
		return d
	}
}

func init() {
	fw.Register(&fw.Prop{
		ID:    "C12",
		Level: "exploration",
		Rule: "documents = HTML starting with one of 13 openings (doctype/html/head/title/script/style/…; optional UTF-8 BOM and leading whitespace), 0-3 decoys (comments, script/style/title/textarea containing fake metas, name=/refresh/og metas with charset= text), optionally one comment/script token of > 4 KiB, > 64 KiB or > 1 MiB, then ONE declaration in one of 9 syntaxes (charset unquoted / double / single quoted / among other attributes; http-equiv pragma with content before or after, spaces around 'charset =', quotes inside content, unquoted attribute values; random letter case of tag and attribute names; spaces around '='; '>' or '/>'), and XML 1.0 prologues ('<?xml ' + version + encoding with either quote, standalone, varied whitespace). Labels: every token character, 35 real IANA labels, random and very long labels, utf-16*. Limits: 0, len+1, exactly the end of the declaration, len, 3072, random in between. " +
			"non-trivial = a result of the expected type whose declaration was judged; distinct = distinct (type, syntax, label class, whole/cut/cut-at-declaration-end, number of decoys).",
		Assumptions: []string{
			"labels never contain '&' (the HTML tokenizer decodes character references, which would make 'the declared label' ambiguous), quotes or backticks",
			"XML whitespace around '=', BOM+XML and letter case of the XML target are counted as informational, not asserted",
			"the generated documents are HTML / XML by construction: a result of another type is a violation (the declared charset cannot be honoured if the markup is not recognised)",
		},
		Plan: func(tier string, seed int64) []fw.Batch {
			nh, nx, nl := 50000, 50000, 1500
			if tier == "thorough" {
				nh, nx, nl = 800000, 800000, 20000
			}
			var bs []fw.Batch
			bs = append(bs, batches("html", 8, nh, 1800)...)
			bs = append(bs, batches("xml", 4, nx, 1800)...)
			bs = append(bs, batches("html-long", 2, nl, 1800)...)
			bs = append(bs, batches("labels", 2, 0, 1800)...)
			return bs
		},
		Run: c12Run,
		Replay: func(c *fw.Ctx, payload stdjson.RawMessage) {
			ic, err := replayInCase(payload)
			if err != nil {
				fmt.Println("bad payload:", err)
				return
			}
			if ic.Entry != "" && ic.Entry != "charset.FromPlain" {
				forcedEntry = ic.Entry
			}
			d := c12Doc{data: ic.In, expect: ic.Aux, syntax: ic.Note, typ: ic.Kind, assert: true, label: "(replay)"}
			c12Judge(c, d, ic.Limit)
		},
		Finish: func(a *fw.Agg) error {
			if a.Counters["declarations_checked_text/html"] < 5000 || a.Counters["declarations_checked_text/xml"] < 5000 {
				return fmt.Errorf("too few declarations judged (html %d, xml %d)", a.Counters["declarations_checked_text/html"], a.Counters["declarations_checked_text/xml"])
			}
			return nil
		},
	})
}
