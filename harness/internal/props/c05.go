package props

import (
	"bufio"
	"bytes"
	"context"
	stdjson "encoding/json"
	"errors"
	"fmt"
	"io"
	"net"
	"os"
	"path/filepath"
	"strings"
	"syscall"
	"testing/iotest"
	"time"

	"github.com/gabriel-vasile/mimetype"

	"verifharness/internal/fw"
	"verifharness/internal/gen"
	"verifharness/internal/lib"
)

// C05 — bytes, reader and file entry points agree; reads stop at the limit;
// errors surface. Expectations are computed from what the instrumented reader
// OBSERVED (bytes really handed out, whether the sentinel was really returned),
// never from what the generator planned.

var errSentinel = errors.New("verif: injected read error (sentinel)")

type eofLookalike struct{}

func (eofLookalike) Error() string { return "EOF" }

// errClasses are the error values a failing reader returns: the statement says ANY
// error other than end of input. (Errors that wrap io.EOF are out of scope.)
var errClasses = []error{
	errSentinel,
	os.ErrDeadlineExceeded,
	fmt.Errorf("read tcp 10.0.0.1:80: %w", os.ErrDeadlineExceeded),
	&net.OpError{Op: "read", Net: "tcp", Err: os.ErrDeadlineExceeded},
	context.DeadlineExceeded,
	context.Canceled,
	io.ErrClosedPipe,
	io.ErrNoProgress,
	io.ErrShortBuffer,
	syscall.ECONNRESET,
	syscall.EINTR,
	syscall.EAGAIN,
	&os.PathError{Op: "read", Path: "/x", Err: syscall.EIO},
	eofLookalike{},
	errors.New("unexpected EOF"),
}

type c05Sched struct {
	Chunk    int   `json:"chunk"` // 0 = as much as asked, -1 = random 1..9, -2 = random 1..2000
	ZeroN    int   `json:"zero_reads"`
	EOFWith  bool  `json:"eof_with_data"`
	ErrAt    int   `json:"err_at"` // -1: none
	ErrWith  bool  `json:"err_with_data"`
	RandSeed int64 `json:"rand_seed"`
	// SetLimitTo >= 0: the reader calls SetLimit(SetLimitTo) inside its first Read
	// (a deterministic stand-in for another goroutine changing the limit while
	// DetectReader is reading).
	SetLimitTo int64 `json:"set_limit_to"`
	// ErrClass selects the injected error value from errClasses (0 = the plain sentinel).
	ErrClass int `json:"err_class"`
	// ErrOnce: the error is reported once (together with the bytes in front of it when ErrWith is
	// set); later calls deliver the rest of the data as if nothing had happened.
	ErrOnce bool `json:"err_once"`
}

type c05Reader struct {
	b      []byte
	pos    int
	s      c05Sched
	rnd    uint64
	handed int
	calls  int
	zero   int
	sentAt int // bytes handed out when the sentinel was returned; -1 never
	maxAsk int
}

func (r *c05Reader) next(n int) int {
	r.rnd = r.rnd*6364136223846793005 + 1442695040888963407
	return int((r.rnd >> 33) % uint64(n))
}

func (r *c05Reader) Read(p []byte) (int, error) {
	r.calls++
	if r.calls == 1 && r.s.SetLimitTo >= 0 {
		mimetype.SetLimit(uint32(r.s.SetLimitTo))
	}
	if len(p) > r.maxAsk {
		r.maxAsk = len(p)
	}
	if len(p) == 0 {
		return 0, nil
	}
	if r.zero > 0 && (r.calls%3 == 0 || r.zero > 50) {
		r.zero-- // ZeroN > 50: a long uninterrupted run of empty reads in front of the data
		return 0, nil
	}
	if r.s.ErrAt >= 0 && r.pos >= r.s.ErrAt && !(r.s.ErrOnce && r.sentAt >= 0) {
		r.sentAt = r.handed
		return 0, errClasses[r.s.ErrClass%len(errClasses)]
	}
	if r.pos >= len(r.b) {
		return 0, io.EOF
	}
	n := r.s.Chunk
	switch {
	case n == 0:
		n = len(p)
	case n == -1:
		n = 1 + r.next(9)
	case n == -2:
		n = 1 + r.next(2000)
	}
	if n > len(p) {
		n = len(p)
	}
	if n > len(r.b)-r.pos {
		n = len(r.b) - r.pos
	}
	if r.s.ErrAt >= 0 && r.pos+n > r.s.ErrAt && !(r.s.ErrOnce && r.sentAt >= 0) {
		n = r.s.ErrAt - r.pos
	}
	copy(p, r.b[r.pos:r.pos+n])
	r.pos += n
	r.handed += n
	if r.s.ErrAt >= 0 && r.pos == r.s.ErrAt && r.s.ErrWith && !(r.s.ErrOnce && r.sentAt >= 0) {
		r.sentAt = r.handed
		return n, errClasses[r.s.ErrClass%len(errClasses)]
	}
	if r.pos == len(r.b) && r.s.EOFWith {
		return n, io.EOF
	}
	return n, nil
}

type c05Payload struct {
	Kind  string   `json:"kind"`
	In    []byte   `json:"in"`
	Limit uint32   `json:"limit"`
	Prev  uint32   `json:"previous_limit"` // limit of the DetectReader call made just before (pooled-buffer style state)
	Sched c05Sched `json:"schedule"`
	Entry string   `json:"entry"`
	InQ   string   `json:"in_quoted"`
	// Gen, when set, rebuilds a long input (In is then left empty in the replay file).
	Gen *c05Gen `json:"gen,omitempty"`
}

// c05Gen describes a stream much longer than the limit: a filler of one kind with
// one deciding defect at a chosen offset (so that a reader path that stops early,
// reads in rounded blocks or drops late bytes gives another answer than Detect).
type c05Gen struct {
	Filler  string `json:"filler"` // json | text | csv | ndjson | zeros
	Size    int    `json:"size"`
	DefAt   int    `json:"defect_at"` // -1: none
	DefByte byte   `json:"defect_byte"`
}

func (g *c05Gen) build() []byte {
	var unit, head []byte
	switch g.Filler {
	case "json":
		head, unit = []byte("["), []byte(`{"k":[1,2,3],"s":"some text"},`)
	case "text":
		unit = []byte("a line of plain text, long enough.\n")
	case "csv":
		unit = []byte("alpha,beta,gamma,delta\n")
	case "ndjson":
		unit = []byte("{\"a\":1,\"b\":[true,null]}\n")
	default:
		unit = []byte{0}
		head = []byte("\x89PNG\x0d\x0a\x1a\x0a\x00\x00\x00\x0dIHDR")
	}
	x := make([]byte, 0, g.Size+len(unit))
	x = append(x, head...)
	for len(x) < g.Size {
		x = append(x, unit...)
	}
	x = x[:g.Size]
	if g.DefAt >= 0 && g.DefAt < len(x) {
		x[g.DefAt] = g.DefByte
	}
	return x
}

// c05CurGen is copied into the payloads of the long-stream batch instead of the input.
var c05CurGen *c05Gen

func c05JudgeReader(c *fw.Ctx, kind string, x []byte, limit uint32, prev uint32, s c05Sched) {
	p := c05Payload{Kind: kind, In: x, Limit: limit, Prev: prev, Sched: s, Entry: "DetectReader", InQ: fw.Quote(x, 80)}
	if c05CurGen != nil {
		g := *c05CurGen
		p.In, p.Gen = nil, &g
	}
	key := fw.InputKey(x, limit, fmt.Sprintf("DetectReader/chunk=%d/zero=%d/eofwith=%v/errat=%d/errwith=%v/once=%v/prev=%d", s.Chunk, s.ZeroN, s.EOFWith, s.ErrAt, s.ErrWith, s.ErrOnce, prev))
	c.Trace(func() (string, any) { return key, p })
	var want lib.Chain
	var m *mimetype.MIME
	var err error
	rd := &c05Reader{b: x, s: s, rnd: uint64(s.RandSeed), zero: s.ZeroN, sentAt: -1}
	ok := c.Guard(key, func() any { return p }, func() {
		if prev != limit {
			// a preceding reader detection under another limit (state left behind)
			mimetype.SetLimit(prev)
			mimetype.DetectReader(&c05Reader{b: x, s: c05Sched{ErrAt: -1, SetLimitTo: -1}, sentAt: -1})
		}
		want = lib.ChainOf(lib.Detect(x, limit))
		mimetype.SetLimit(limit)
		m, err = mimetype.DetectReader(rd)
	})
	c.Eval(1)
	if !ok {
		return
	}
	if m == nil {
		c.Violate("nil-result", key, "DetectReader returned a nil value", p)
		return
	}
	got := lib.ChainOf(m)
	hdr := len(lib.Header(x, limit))
	expectErr := rd.sentAt >= 0 && (limit == 0 || rd.sentAt < int(limit))
	faultBeforeComplete := expectErr
	shortReads := rd.calls > 2
	switch {
	case expectErr:
		c.Count("faults_observed_before_header_complete", 1)
		if err != errClasses[s.ErrClass%len(errClasses)] || !got.IsRootOnly() {
			c.Violate("error-not-surfaced", key, fmt.Sprintf("the reader returned the injected error %T(%v) after handing out %d bytes (limit %d, header %d bytes) but DetectReader returned (%s, %v); want (application/octet-stream, that error)", errClasses[s.ErrClass%len(errClasses)], errClasses[s.ErrClass%len(errClasses)], rd.sentAt, limit, hdr, got, err), p)
		}
	default:
		if err != nil {
			c.Violate("spurious-error", key, fmt.Sprintf("DetectReader returned error %v although the reader never returned an error before the header was complete (sentinel at %d, limit %d)", err, rd.sentAt, limit), p)
		} else if s.SetLimitTo >= 0 {
			alt := lib.ChainOf(lib.Detect(x, uint32(s.SetLimitTo)))
			c.Count("limit_changed_during_read_cases", 1)
			if got.String() != want.String() && got.String() != alt.String() {
				c.Violate("result-matches-neither-limit", key, fmt.Sprintf("the limit changed from %d to %d while DetectReader was reading; the result %s equals neither Detect under %d (%s) nor under %d (%s); input %s", limit, s.SetLimitTo, got, limit, want, s.SetLimitTo, alt, fw.Quote(x, 80)), p)
			}
		} else if got.String() != want.String() {
			c.Violate("entry-points-disagree", key, fmt.Sprintf("DetectReader gives %s, Detect on the same bytes gives %s; limit %d input %s", got, want, limit, fw.Quote(x, 80)), p)
		}
	}
	if s.SetLimitTo >= 0 {
		return
	}
	if limit > 0 && rd.handed > int(limit) {
		c.Violate("over-read", key, fmt.Sprintf("DetectReader consumed %d bytes from the reader with limit %d", rd.handed, limit), p)
	}
	if limit == 0 && rd.sentAt < 0 && rd.handed != len(x) {
		c.Violate("under-read", key, fmt.Sprintf("limit 0 but only %d of %d bytes were consumed", rd.handed, len(x)), p)
	}
	c.Max("max_bytes_consumed_over_limit", int64(maxInt(0, rd.handed-int(limit))*btoi(limit > 0)))
	c.Count("bytes_handed_out_by_instrumented_readers", int64(rd.handed))
	if faultBeforeComplete || shortReads {
		lc := "0"
		switch {
		case limit == 0:
		case int(limit) < len(x):
			lc = "<len"
		case int(limit) == len(x):
			lc = "=len"
		default:
			lc = ">len"
		}
		oc := "none"
		if s.ErrAt >= 0 {
			switch {
			case s.ErrAt == 0:
				oc = "0"
			case s.ErrAt >= hdr:
				oc = "end"
			default:
				oc = "mid"
			}
		}
		c.Distinct(fmt.Sprintf("rd|chunk=%d|zero=%v|eof=%v|lim=%s|err=%s|with=%v|prev=%v|outcome=%v", s.Chunk, s.ZeroN > 0, s.EOFWith, lc, oc, s.ErrWith, prev != limit, expectErr))
	}
	if c.WantSample() && faultBeforeComplete && c.Rand.Intn(3000) == 0 {
		c.Sample(map[string]any{"input": fw.Quote(x, 60), "limit": limit, "schedule": s, "reader_calls": rd.calls, "bytes_handed_out": rd.handed, "sentinel_returned_after_bytes": rd.sentAt, "result": got.String(), "error": fmt.Sprint(err)})
	}
}

func btoi(b bool) int {
	if b {
		return 1
	}
	return 0
}

func c05JudgeFile(c *fw.Ctx, kind string, x []byte, limit uint32, dir string) {
	p := c05Payload{Kind: kind, In: x, Limit: limit, Entry: "DetectFile", InQ: fw.Quote(x, 80)}
	key := fw.InputKey(x, limit, "DetectFile/"+kind)
	c.Trace(func() (string, any) { return key, p })
	path := filepath.Join(dir, "f.bin")
	var m *mimetype.MIME
	var err error
	var want lib.Chain
	wantErr := false
	ok := c.Guard(key, func() any { return p }, func() {
		want = lib.ChainOf(lib.Detect(x, limit))
		mimetype.SetLimit(limit)
		switch kind {
		case "file":
			if werr := os.WriteFile(path, x, 0o600); werr != nil {
				panic("verif harness: " + werr.Error())
			}
			m, err = mimetype.DetectFile(path)
			os.Remove(path)
		case "file-missing":
			wantErr = true
			m, err = mimetype.DetectFile(filepath.Join(dir, "missing", "nope"))
		case "file-directory":
			wantErr = true
			m, err = mimetype.DetectFile(dir)
		case "file-proc-self-mem":
			wantErr = true
			m, err = mimetype.DetectFile("/proc/self/mem")
		}
	})
	c.Eval(1)
	if !ok {
		return
	}
	if m == nil {
		c.Violate("nil-result", key, "DetectFile returned a nil value", p)
		return
	}
	got := lib.ChainOf(m)
	c.Count("file_cases_"+kind, 1)
	if wantErr {
		if err == nil || !got.IsRootOnly() {
			c.Violate("file-error-not-surfaced", key, fmt.Sprintf("%s: got (%s, %v), want (application/octet-stream, an error)", kind, got, err), p)
		} else {
			c.SetAdd("file_errors_seen", fmt.Sprintf("%s: %v", kind, errors.Unwrap(err)))
			c.Distinct("file|" + kind + "|" + fmt.Sprint(limit == 0))
		}
		return
	}
	if err != nil || got.String() != want.String() {
		c.Violate("entry-points-disagree", key, fmt.Sprintf("DetectFile gives (%s, %v), Detect on the same bytes gives %s; limit %d", got, err, want, limit), p)
	}
}

// (limits beyond the input length and structural sizes 4096 / 8192 / 64 KiB / 1 MiB are added for long inputs)
func c05Limits(c *fw.Ctx, n int) []uint32 {
	ls := []uint32{0, 1, uint32(n), uint32(n + 1), 3072, uint32(c.Rand.Intn(n + 3))}
	if n > 0 {
		ls = append(ls, uint32(n-1))
	}
	return ls
}

var c05Chunks = []int{1, 2, 3, 7, 512, 0, -1, -2}

func c05Inputs() [][]byte {
	ins := append([][]byte{}, lib.Seeds()...)
	ins = append(ins, gen.TextTails()[:40]...)
	// inputs longer than 4 KiB / 64 KiB (progressive reads, second read phases)
	big := []byte("[")
	for len(big) < 12000 {
		big = append(big, `{"k":[1,2,3],"s":"some text"},`...)
	}
	ins = append(ins, append(big, "1]"...), bytes.Repeat([]byte("alpha,beta,gamma\n"), 1200), bytes.Repeat([]byte("plain text line\n"), 600),
		append(append([]byte{}, lib.Seeds()[0]...), make([]byte, 15000)...), bytes.Repeat([]byte("seventy kilobytes of text. "), 2700))
	ins = append(ins, []byte("a,b\n1,2\n3,4\n"), []byte("{\"a\":1}\n{\"b\":2}\n"), []byte(`{"type":"Feature","x":[1,2,3]}`), []byte("<html><meta charset=latin1>caf\xe9"))
	return ins
}

func c05Run(c *fw.Ctx, b fw.Batch) {
	r := c.Rand
	ins := c05Inputs()
	switch b.Kind {
	case "schedules":
		lo, hi := split(len(ins), b.Idx, b.Of)
		for rep := 0; rep < b.N; rep++ {
			for _, x := range ins[lo:hi] {
				if len(x) > 5000 {
					x = x[:5000]
				}
				prev := uint32(3072)
				for _, lim := range c05Limits(c, len(x)) {
					for _, ch := range c05Chunks {
						if len(x) > 1200 && (ch == 1 || ch == 2) && lim != 3072 {
							continue
						}
						s := c05Sched{Chunk: ch, ZeroN: r.Intn(3), EOFWith: r.Intn(2) == 0, ErrAt: -1, RandSeed: r.Int63(), SetLimitTo: -1}
						c05JudgeReader(c, "schedule", x, lim, prev, s)
						prev = []uint32{lim, lim, 3072, 0, 7, 100000}[r.Intn(6)]
					}
				}
			}
		}
	case "long-stream":
		// streams much longer than the limit, limits 4 KiB … 5 MiB: the reader path must hand
		// exactly the first `limit` bytes to the detectors, consume no more, and surface late errors
		limits := []int{4095, 4096, 4097, 8191, 8193, 65535, 65536, 65537, 131073, 1<<20 - 1, 1 << 20, 1<<20 + 1, 2<<20 + 5, 4<<20 + 3,
			4096 + r.Intn(60000), 65536 + r.Intn(1<<20), 1<<20 + r.Intn(4<<20)}
		fillers := []string{"json", "text", "csv", "ndjson", "zeros"}
		type combo struct {
			f string
			L int
		}
		var all []combo
		for _, f := range fillers {
			for _, L := range limits {
				all = append(all, combo{f, L})
			}
		}
		// limits beyond 16 MiB (buffers that grow in steps): cheap fillers only
		for _, L := range []int{1<<24 + 1, 1<<24 + 4097, 3<<23 + 5} {
			all = append(all, combo{"zeros", L}, combo{"text", L})
		}
		lo, hi := split(len(all), b.Idx, b.Of)
		for _, cb := range all[lo:hi] {
			L := cb.L
			defs := []int{-1, L - 1, L - 2, L, L / 2, L - 4096, 65536, L - L%4096}
			nd := 2
			if b.N > 1 {
				nd = len(defs)
			}
			for k := 0; k < nd; k++ {
				d := defs[r.Intn(len(defs))]
				if b.N > 1 {
					d = defs[k]
				}
				g := &c05Gen{Filler: cb.f, Size: L + 1 + r.Intn(70000), DefAt: d, DefByte: []byte{0x00, '}', '"', 0x01, ',', '\n'}[r.Intn(6)]}
				if cb.f == "zeros" {
					g.DefByte = 'x'
				}
				x := g.build()
				c05CurGen = g
				chunks := []int{0, 4096, 65536, 32769, -2}
				errAts := []int{-1, -1, L - 1, L, L + 1, L / 2, 65536, L - 4096, L - 1 - r.Intn(1000)}
				nc := 4
				if b.N > 1 {
					nc = 14
				}
				for j := 0; j < nc; j++ {
					ch := chunks[r.Intn(len(chunks))]
					if ch == -2 && L > 300000 {
						ch = 4096
					}
					ea := errAts[r.Intn(len(errAts))]
					if ea < -1 || ea > len(x) {
						ea = -1
					}
					sc := c05Sched{Chunk: ch, ZeroN: r.Intn(2), ErrAt: ea, ErrWith: r.Intn(2) == 0, ErrOnce: r.Intn(3) == 0, ErrClass: r.Intn(len(errClasses)), RandSeed: r.Int63(), SetLimitTo: -1}
					c05JudgeReader(c, "long-stream", x, uint32(L), uint32(L), sc)
					c.Count("long_stream_cases", 1)
					c.Max("largest_limit_with_a_longer_stream", int64(L))
				}
				c05CurGen = nil
			}
		}
	case "reader-zoo":
		// a conforming reader may return (0, nil) any number of times before it delivers
		for _, x := range [][]byte{[]byte("\x89PNG\x0d\x0a\x1a\x0a\x00\x00\x00\x0dIHDR"), []byte(`{"type":"Feature","k":[1,2,3]}`), []byte("plain text"), {}} {
			for _, zn := range []int{60, 99, 100, 101, 150, 1000} {
				for _, lim := range []uint32{0, 3072, uint32(len(x)), 4} {
					c05JudgeReader(c, "zero-run", x, lim, lim, c05Sched{Chunk: 7, ZeroN: zn, ErrAt: -1, SetLimitTo: -1})
					c.Count("long_runs_of_empty_reads", 1)
				}
			}
		}
		// concrete reader types of the standard library (a fast path keyed on the
		// dynamic type must behave like the generic path)
		pr, pw, _ := os.Pipe()
		pr.Close()
		pw.Close()
		for rep := 0; rep < b.N; rep++ {
			for _, x := range ins {
				if len(x) > 9000 {
					x = x[:9000]
				}
				for _, lim := range c05Limits(c, len(x)) {
					want := lib.ChainOf(lib.Detect(x, lim)).String()
					hdr := len(lib.Header(x, lim))
					mk := map[string]func() (io.Reader, func() int){
						"bytes.Buffer": func() (io.Reader, func() int) {
							bb := bytes.NewBuffer(append([]byte(nil), x...))
							return bb, func() int { return len(x) - bb.Len() }
						},
						"bytes.Reader": func() (io.Reader, func() int) {
							br := bytes.NewReader(x)
							return br, func() int { return len(x) - br.Len() }
						},
						"strings.Reader": func() (io.Reader, func() int) {
							sr := strings.NewReader(string(x))
							return sr, func() int { return len(x) - sr.Len() }
						},
						"bufio.Reader": func() (io.Reader, func() int) {
							return bufio.NewReaderSize(bytes.NewReader(x), 16), func() int { return -1 }
						},
						"io.LimitReader": func() (io.Reader, func() int) {
							br := bytes.NewReader(x)
							return io.LimitReader(br, int64(len(x))), func() int { return len(x) - br.Len() }
						},
						"io.MultiReader": func() (io.Reader, func() int) {
							h := len(x) / 2
							return io.MultiReader(bytes.NewReader(x[:h]), bytes.NewReader(x[h:])), func() int { return -1 }
						},
						"iotest.OneByte": func() (io.Reader, func() int) {
							br := bytes.NewReader(x)
							return iotest.OneByteReader(br), func() int { return len(x) - br.Len() }
						},
						"iotest.DataErr": func() (io.Reader, func() int) {
							return iotest.DataErrReader(bytes.NewReader(x)), func() int { return -1 }
						}, // reads ahead by design
						"iotest.HalfRead": func() (io.Reader, func() int) {
							br := bytes.NewReader(x)
							return iotest.HalfReader(br), func() int { return len(x) - br.Len() }
						},
					}
					for name, f := range mk {
						rd, consumed := f()
						key := fw.InputKey(x, lim, "DetectReader/"+name)
						p := c05Payload{Kind: "reader-zoo:" + name, In: x, Limit: lim, Entry: "DetectReader", InQ: fw.Quote(x, 80)}
						c.Trace(func() (string, any) { return key, p })
						var got string
						var err error
						if !c.Guard(key, func() any { return p }, func() {
							mimetype.SetLimit(lim)
							m, e := mimetype.DetectReader(rd)
							got, err = lib.ChainOf(m).String(), e
						}) {
							continue
						}
						c.Eval(1)
						c.Count("reader_zoo_cases", 1)
						if err != nil || got != want {
							c.Violate("entry-points-disagree", key, fmt.Sprintf("DetectReader(%s) gives (%s, %v), Detect on the same bytes gives %s; limit %d", name, got, err, want, lim), p)
						}
						if n := consumed(); n >= 0 {
							wantN := hdr
							if n != wantN {
								c.Violate("wrong-consumption", key, fmt.Sprintf("DetectReader(%s) consumed %d bytes of a %d-byte input with limit %d (expected %d)", name, n, len(x), lim, wantN), p)
							}
						}
						c.Distinct("zoo|" + name + "|" + fmt.Sprint(lim == 0, int(lim) < len(x)))
					}
				}
			}
		}
		// readers that were read from before: detection starts where the reader stands, whatever
		// optional interfaces (io.Seeker) it implements
		fdir, _ := os.MkdirTemp("", "verif-c05-")
		defer os.RemoveAll(fdir)
		for _, x := range ins {
			if len(x) < 40 || len(x) > 9000 {
				continue
			}
			for _, k := range []int{1, 7, len(x) / 2, len(x) - 1} {
				rest := x[k:]
				for _, lim := range []uint32{0, 3072, uint32(len(rest)), 16} {
					want := lib.ChainOf(lib.Detect(rest, lim)).String()
					fp := filepath.Join(fdir, "pre.bin")
					os.WriteFile(fp, x, 0o600)
					for _, name := range []string{"bytes.Reader", "strings.Reader", "os.File"} {
						var rd io.Reader
						var closer func()
						switch name {
						case "bytes.Reader":
							br := bytes.NewReader(x)
							io.CopyN(io.Discard, br, int64(k))
							rd = br
						case "strings.Reader":
							sr := strings.NewReader(string(x))
							sr.Seek(int64(k), io.SeekStart)
							rd = sr
						default:
							f, err := os.Open(fp)
							if err != nil {
								continue
							}
							f.Seek(int64(k), io.SeekStart)
							rd, closer = f, func() { f.Close() }
						}
						key := fw.InputKey(rest, lim, "DetectReader/pre-read/"+name)
						p := c05Payload{Kind: "pre-read:" + name, In: rest, Limit: lim, Entry: "DetectReader", InQ: fw.Quote(rest, 80)}
						c.Trace(func() (string, any) { return key, p })
						var got string
						var err error
						okg := c.Guard(key, func() any { return p }, func() {
							mimetype.SetLimit(lim)
							m, e := mimetype.DetectReader(rd)
							got, err = lib.ChainOf(m).String(), e
						})
						if closer != nil {
							closer()
						}
						if !okg {
							continue
						}
						c.Eval(1)
						c.Count("pre_read_reader_cases", 1)
						if err != nil || got != want {
							c.Violate("entry-points-disagree", key, fmt.Sprintf("a %s from which %d bytes had been read before gives (%s, %v); Detect on the remaining %d bytes gives %s; limit %d", name, k, got, err, len(rest), want, lim), p)
						}
					}
				}
			}
		}
	case "limit-change":
		docs := [][]byte{}
		for i := 0; i < 40; i++ {
			o := gen.JSONOpts{MaxDepth: 3, MaxItems: 5, WS: r.Intn(3), NoSvg: true}
			var d []byte
			for len(d) < 200+r.Intn(6000) {
				d = append(append(d, gen.JSONDoc(r, o)...), '\n')
			}
			docs = append(docs, d)
			big := []byte("[")
			for len(big) < 300+r.Intn(7000) {
				big = append(append(big, gen.JSONDoc(r, o)...), ',')
			}
			docs = append(docs, append(big, "1]"...))
			tb := c13MakeTable(r, ',', 40+r.Intn(200), 3, false, true, true, 0, false)
			docs = append(docs, tb.data)
		}
		for _, x := range docs {
			for k := 0; k < 12; k++ {
				l1 := uint32(1 + r.Intn(len(x)+50))
				l2 := int64([]int{0, len(x) + 1, 3072, 1 + r.Intn(len(x)+50), 1 << 20}[r.Intn(5)])
				c05JudgeReader(c, "limit-changes-during-read", x, l1, l1, c05Sched{Chunk: c05Chunks[r.Intn(len(c05Chunks))], ErrAt: -1, RandSeed: r.Int63(), SetLimitTo: l2})
			}
		}
	case "faults":
		// sentinel at EVERY offset 0..min(len,limit) for inputs <= 600 bytes
		lo, hi := split(len(ins), b.Idx, b.Of)
		for rep := 0; rep < b.N; rep++ {
			for _, x := range ins[lo:hi] {
				if len(x) > 80000 {
					x = x[:80000]
				}
				lims := c05Limits(c, len(x))
				if len(x) > 4096 {
					lims = append(lims, 4096, 4097, 8192, 1<<16, 1<<20)
				}
				for _, lim := range lims {
					hdr := len(lib.Header(x, lim))
					step := 1
					if hdr > 600 {
						step = 1 + hdr/300
					}
					for at := 0; at <= hdr; at += step {
						s := c05Sched{Chunk: c05Chunks[r.Intn(len(c05Chunks))], ZeroN: r.Intn(2), EOFWith: r.Intn(2) == 0, ErrAt: at, ErrWith: r.Intn(2) == 0, ErrOnce: r.Intn(3) == 0, RandSeed: r.Int63(), SetLimitTo: -1, ErrClass: r.Intn(3) * r.Intn(len(errClasses))}
						c05JudgeReader(c, "fault", x, lim, lim, s)
					}
					if hdr > 0 && step > 1 { // always the last offsets too
						for at := maxInt(0, hdr-3); at <= hdr; at++ {
							c05JudgeReader(c, "fault", x, lim, lim, c05Sched{Chunk: 0, ErrAt: at, ErrWith: at%2 == 0, SetLimitTo: -1})
						}
					}
				}
			}
		}
	case "files":
		dir, err := os.MkdirTemp("", "verif-c05-")
		if err != nil {
			panic("verif harness: " + err.Error())
		}
		defer os.RemoveAll(dir)
		lo, hi := split(len(ins), b.Idx, b.Of)
		for _, x := range ins[lo:hi] {
			if len(x) > 8000 {
				x = x[:8000]
			}
			for _, lim := range c05Limits(c, len(x)) {
				c05JudgeFile(c, "file", x, lim, dir)
			}
		}
		// sparse files of 2 GiB … 4 GiB+ (sizes that do not fit 31 / 32 bits): the file is detected from its first bytes
		if b.Idx == 0 {
			for _, head := range [][]byte{[]byte("%PDF-1.7\n%\xe2\xe3\xcf\xd3\n1 0 obj"), []byte(`{"type":"Feature","k":[1,2,3]}` + "\n"), []byte("a,b,c\n1,2,3\n4,5,6\n")} {
				for _, size := range []int64{1<<31 + 7, 1<<32 - 1, 1 << 32, 1<<32 + 3, 1<<32 + 5000, 1<<33 + 100} {
					sp := filepath.Join(dir, "sparse.bin")
					if os.WriteFile(sp, head, 0o600) != nil || os.Truncate(sp, size) != nil {
						c.Count("sparse_files_skipped", 1)
						continue
					}
					for _, lim := range []uint32{3072, 16, 1 << 16} {
						buf := make([]byte, int(lim)+1)
						copy(buf, head) // the first limit+1 bytes of the file (zeros after the head)
						want := lib.ChainOf(lib.Detect(buf, lim)).String()
						mimetype.SetLimit(lim)
						m, derr := mimetype.DetectFile(sp)
						c.Eval(1)
						c.Count("sparse_huge_files_detected", 1)
						if derr != nil || lib.ChainOf(m).String() != want {
							c.Violate("entry-points-disagree", fw.InputKey(head, lim, fmt.Sprintf("DetectFile/sparse-%d", size)), fmt.Sprintf("DetectFile on a %d-byte sparse file starting with %q gives (%s, %v), Detect on its first %d bytes gives %s", size, head[:8], lib.ChainOf(m), derr, lim+1, want), c05Payload{Kind: fmt.Sprintf("sparse:%d", size), In: head, Limit: lim, Entry: "DetectFileSparse"})
						}
					}
					os.Remove(sp)
				}
			}
		}
		if b.Idx == 0 {
			c05Paths(c, dir)
			c05Fifos(c, dir)
		}
		// procfs: regular files that report size 0 but have content
		for _, pf := range []string{"/proc/version", "/proc/filesystems", "/proc/cmdline", "/proc/self/cmdline", "/proc/self/comm"} {
			content, err := os.ReadFile(pf)
			if err != nil || len(content) == 0 {
				continue
			}
			for _, lim := range []uint32{0, 16, 3072, 1 << 20} {
				want := lib.ChainOf(lib.Detect(content, lim)).String()
				mimetype.SetLimit(lim)
				m, derr := mimetype.DetectFile(pf)
				c.Eval(1)
				c.Count("procfs_files_detected", 1)
				if derr != nil || lib.ChainOf(m).String() != want {
					c.Violate("entry-points-disagree", fw.InputKey(content, lim, "DetectFile/"+pf), fmt.Sprintf("DetectFile(%s) gives (%s, %v), Detect on its %d bytes gives %s (limit %d; stat reports size 0)", pf, lib.ChainOf(m), derr, len(content), want, lim), c05Payload{Kind: "procfs:" + pf, In: content, Limit: lim, Entry: "DetectFileProc"})
				}
			}
		}
		for _, lim := range []uint32{0, 1, 3072} {
			c05JudgeFile(c, "file", nil, lim, dir)
			c05JudgeFile(c, "file-missing", nil, lim, dir)
			c05JudgeFile(c, "file-directory", nil, lim, dir)
			c05JudgeFile(c, "file-proc-self-mem", nil, lim, dir)
		}
	}
}

// c05Paths: DetectFile must open the path it is given, as the operating system resolves
// it (symbolic links before "..", odd names): expectation = what os.ReadFile delivers for
// the very same path string.
func c05Paths(c *fw.Ctx, dir string) {
	root := filepath.Join(dir, "paths")
	png := []byte("\x89PNG\x0d\x0a\x1a\x0a\x00\x00\x00\x0dIHDR")
	txt := []byte("a plain text file\n")
	pdf := []byte("%PDF-1.7\n")
	must := func(err error) {
		if err != nil {
			panic("verif harness: " + err.Error())
		}
	}
	must(os.MkdirAll(filepath.Join(root, "store", "2024"), 0o700))
	must(os.MkdirAll(filepath.Join(root, "d", "sub"), 0o700))
	must(os.WriteFile(filepath.Join(root, "store", "cover"), png, 0o600))       // what link/../cover really is
	must(os.WriteFile(filepath.Join(root, "cover"), txt, 0o600))                // what a lexically cleaned path would open
	must(os.WriteFile(filepath.Join(root, "store", "2024", "doc"), pdf, 0o600)) // reached through the link
	must(os.WriteFile(filepath.Join(root, "d", "f.bin"), pdf, 0o600))
	must(os.WriteFile(filepath.Join(root, "d", " lead"), png, 0o600))
	must(os.WriteFile(filepath.Join(root, "d", "trail "), png, 0o600))
	must(os.WriteFile(filepath.Join(root, "d", "new\nline"), txt, 0o600))
	must(os.WriteFile(filepath.Join(root, "d", "ünï"), png, 0o600))
	os.WriteFile(filepath.Join(root, "d", "latin1-\xe9t\xe9.png"), png, 0o600) // file names are bytes, not UTF-8
	os.WriteFile(filepath.Join(root, "d", "cut-\xe2\x82"), pdf, 0o600)
	must(os.WriteFile(filepath.Join(root, "d", strings.Repeat("n", 250)), pdf, 0o600))
	if os.Symlink(filepath.Join("store", "2024"), filepath.Join(root, "current")) != nil {
		c.Count("path_cases_skipped_no_symlink", 1)
	}
	os.Symlink("f.bin", filepath.Join(root, "d", "link-to-f"))
	os.Symlink("nowhere", filepath.Join(root, "d", "dangling"))
	sep := string(filepath.Separator)
	paths := []string{
		root + sep + "current" + sep + ".." + sep + "cover", // store/cover (png), NOT root/cover
		root + sep + "current" + sep + "doc",
		root + sep + "current" + sep + ".." + sep + ".." + sep + "cover", // root/cover (text)
		root + sep + "current" + sep + ".." + sep + "missing",
		root + sep + "d" + sep + "sub" + sep + ".." + sep + "f.bin",
		root + sep + "d" + sep + sep + "f.bin",
		root + sep + "d" + sep + "." + sep + "f.bin",
		root + sep + "d" + sep + "f.bin" + sep,       // ENOTDIR
		root + sep + "d" + sep + "f.bin" + sep + ".", // ENOTDIR
		root + sep + "d" + sep + " lead",
		root + sep + "d" + sep + "trail ",
		root + sep + "d" + sep + "new\nline",
		root + sep + "d" + sep + "ünï",
		root + sep + "d" + sep + "latin1-\xe9t\xe9.png",
		root + sep + "d" + sep + "cut-\xe2\x82",
		root + sep + "d" + sep + strings.Repeat("n", 250),
		root + sep + "d" + sep + strings.Repeat("n", 300), // ENAMETOOLONG
		root + sep + "d" + sep + "link-to-f",
		root + sep + "d" + sep + "dangling",
		root + sep + "d" + sep + "missing" + sep + ".." + sep + "f.bin", // ENOENT although the cleaned path exists
		"",
	}
	for _, pth := range paths {
		for _, lim := range []uint32{3072, 0, 4} {
			content, rerr := os.ReadFile(pth)
			mimetype.SetLimit(lim)
			m, derr := mimetype.DetectFile(pth)
			c.Eval(1)
			c.Count("path_spellings_detected", 1)
			got := lib.ChainOf(m).String()
			pl := c05Payload{Kind: "path:" + pth, In: content, Limit: lim, Entry: "DetectFilePath"}
			key := fw.InputKey(content, lim, "DetectFile/path="+fw.Quote([]byte(strings.TrimPrefix(pth, root)), 80))
			if rerr != nil {
				if derr == nil || !lib.ChainOf(m).IsRootOnly() {
					c.Violate("file-error-not-surfaced", key, fmt.Sprintf("reading %q fails (%v) but DetectFile returned (%s, %v)", strings.TrimPrefix(pth, root), rerr, got, derr), pl)
				}
				continue
			}
			want := lib.ChainOf(lib.Detect(content, lim)).String()
			if derr != nil || got != want {
				c.Violate("entry-points-disagree", key, fmt.Sprintf("DetectFile(%q) gives (%s, %v); the file the operating system opens for this path holds %d bytes that Detect reports as %s", strings.TrimPrefix(pth, root), got, derr, len(content), want), pl)
			}
		}
	}
}

// c05Fifos: named pipes (stat size 0, not seekable, content arrives in pieces).
func c05Fifos(c *fw.Ctx, dir string) {
	heads := [][]byte{[]byte("\x89PNG\x0d\x0a\x1a\x0a\x00\x00\x00\x0dIHDR" + strings.Repeat("\x00", 5000)), []byte(strings.Repeat("plain text line\n", 400)), []byte(`{"type":"Feature","k":[` + strings.Repeat("1,", 3000) + `1]}`), append([]byte(strings.Repeat("text then binary ", 200)), 0, 1, 2)}
	for hi, x := range heads {
		for _, lim := range []uint32{3072, 8, 0, 1 << 16, uint32(len(x)), uint32(len(x) - 1)} {
			ff := filepath.Join(dir, fmt.Sprintf("fifo-%d", hi))
			os.Remove(ff)
			if err := syscall.Mkfifo(ff, 0o600); err != nil {
				c.Count("fifo_cases_skipped", 1)
				return
			}
			done := make(chan struct{})
			go func() {
				defer close(done)
				w, err := os.OpenFile(ff, os.O_WRONLY, 0)
				if err != nil {
					return
				}
				defer w.Close()
				for off := 0; off < len(x); off += 1000 {
					end := off + 1000
					if end > len(x) {
						end = len(x)
					}
					if _, err := w.Write(x[off:end]); err != nil {
						return // the reader closed after `limit` bytes: EPIPE
					}
				}
			}()
			want := lib.ChainOf(lib.Detect(x, lim)).String()
			mimetype.SetLimit(lim)
			m, derr := mimetype.DetectFile(ff)
			select {
			case <-done:
			case <-time.After(3 * time.Second):
				// the library never opened the pipe: release the writer (harness liveness only, no verdict)
				if rd, err := os.OpenFile(ff, os.O_RDONLY|syscall.O_NONBLOCK, 0); err == nil {
					<-done
					rd.Close()
				}
			}
			os.Remove(ff)
			c.Eval(1)
			c.Count("fifo_files_detected", 1)
			if derr != nil || lib.ChainOf(m).String() != want {
				c.Violate("entry-points-disagree", fw.InputKey(x, lim, "DetectFile/fifo"), fmt.Sprintf("DetectFile on a named pipe delivering %d bytes gives (%s, %v), Detect on the same bytes gives %s (limit %d)", len(x), lib.ChainOf(m), derr, want, lim), c05Payload{Kind: "fifo", In: x, Limit: lim, Entry: "DetectFileFifo"})
			}
		}
	}
}

func init() {
	_ = syscall.EIO
	fw.Register(&fw.Prop{
		ID:    "C05",
		Level: "fault_enumeration",
		Rule: "inputs = every seed + text tails + small text documents; limits {0, 1, len-1, len, len+1, 3072, random}; chunk schedules {1, 2, 3, 7, 512, as-asked, random 1-9, random 1-2000} with occasional (0, nil) reads and data returned together with io.EOF; a preceding DetectReader under a different limit (state left behind); an error (a plain sentinel, and error values of 15 classes: deadline exceeded bare / wrapped / in a net.OpError, context errors, closed pipe, ECONNRESET, EINTR, EAGAIN, a PathError, an error whose text is \"EOF\") injected at EVERY offset 0..min(len, limit) for headers <= 600 bytes (every k-th and the last 4 offsets beyond), returned alone or together with the last bytes before it, sticky or reported only once (the next Read delivers data again); the standard library's concrete readers (bytes.Buffer, bytes.Reader, strings.Reader, bufio.Reader, io.LimitReader, io.MultiReader, iotest one-byte / half / data-with-error readers) with their consumption checked; seekable readers (bytes.Reader, strings.Reader, os.File) from which a prefix had been read before; DetectFile over temp files for every input and limit, an empty file, procfs files (regular files whose stat size is 0), sparse files of 2 GiB … 8 GiB whose size does not fit 31 / 32 bits, a missing path, a directory (EISDIR) and /proc/self/mem (read error), path spellings that only the operating system resolves correctly (symlink followed by '..', '//', '/./', trailing '/', names with blanks / newline / non-ASCII / 250 and 300 bytes, dangling link, empty path: expectation = what os.ReadFile delivers for the same string) and named pipes; streams much longer than the limit (JSON / text / CSV / NDJSON / zero fillers of limit + 1 … limit + 70000 bytes with one deciding defect at limit-1, limit-2, limit, limit/2, a page boundary …) for limits 4095 … 5 MiB (and 16 MiB + 1 … 24 MiB + 5 for the cheap fillers) with chunk sizes as-asked / 4096 / 32769 / 65536 and errors of every class injected just before, at and after the limit. The instrumented reader records bytes handed out, calls, and when the sentinel was really returned; expectations are derived from those observations. " +
			"non-trivial = a short-read schedule or an injected fault actually occurred before the header was complete; distinct = distinct (chunk kind, zero reads, EOF-with-data, limit class, error offset class, error-with-data, previous-limit differs, outcome).",
		Assumptions: []string{
			"only conforming readers: never n > len(p), never endless (0, nil)",
			"the injected error is a sentinel distinct from io.EOF / io.ErrUnexpectedEOF; wrapped EOF errors are out of scope",
			"an error returned together with the byte that completes the header need not surface (io.ReadFull semantics)",
			"when the limit is changed while DetectReader is reading (the reader itself calls SetLimit in its first Read), the result must equal Detect on the bytes under the old or under the new limit",
		},
		Plan: func(tier string, seed int64) []fw.Batch {
			var bs []fw.Batch
			rs, rf := 8, 4
			if tier == "thorough" {
				rs, rf = 150, 80
			}
			bs = append(bs, batches("schedules", 6, rs, 1800)...)
			bs = append(bs, batches("faults", 12, rf, 1800)...)
			bs = append(bs, batches("files", 4, 0, 1800)...)
			bs = append(bs, batches("limit-change", 2, 0, 1800)...)
			bs = append(bs, batches("reader-zoo", 1, 1, 1800)...)
			ls := 1
			if tier == "thorough" {
				ls = 2
			}
			bs = append(bs, batches("long-stream", 6, ls, 1800)...)
			return bs
		},
		Run: c05Run,
		Replay: func(c *fw.Ctx, payload stdjson.RawMessage) {
			var p c05Payload
			if err := stdjson.Unmarshal(payload, &p); err != nil {
				fmt.Println("bad payload:", err)
				return
			}
			if p.Entry == "DetectFileSparse" {
				c05Run(c, fw.Batch{Kind: "files", Idx: 0, Of: 1000})
				return
			}
			if p.Entry == "DetectFilePath" || p.Entry == "DetectFileFifo" {
				c05Run(c, fw.Batch{Kind: "files", Idx: 0, Of: 1000})
				return
			}
			if p.Entry == "DetectFileProc" {
				c05Run(c, fw.Batch{Kind: "files", Idx: 0, Of: 1000})
				return
			}
			if p.Entry == "DetectFile" {
				dir, _ := os.MkdirTemp("", "verif-c05-")
				defer os.RemoveAll(dir)
				c05JudgeFile(c, p.Kind, p.In, p.Limit, dir)
				return
			}
			if p.Gen != nil {
				c05CurGen = p.Gen
				p.In = p.Gen.build()
			}
			c05JudgeReader(c, p.Kind, p.In, p.Limit, p.Prev, p.Sched)
		},
		Finish: func(a *fw.Agg) error {
			if a.Counters["faults_observed_before_header_complete"] < 5000 {
				return fmt.Errorf("only %d injected faults were observed before the header was complete", a.Counters["faults_observed_before_header_complete"])
			}
			if a.Counters["file_cases_file"] < 500 || a.SetSize("file_errors_seen") < 3 {
				return fmt.Errorf("file path under-exercised (files %d, distinct file errors %d)", a.Counters["file_cases_file"], a.SetSize("file_errors_seen"))
			}
			return nil
		},
	})
}
