package props

import (
	"archive/tar"
	"bytes"
	stdjson "encoding/json"
	"fmt"
	"math/rand"
	"os"
	"path/filepath"
	"runtime/debug"
	"sort"
	"strconv"
	"strings"
	"syscall"
	"time"

	"github.com/gabriel-vasile/mimetype"

	"verifharness/internal/fw"
	"verifharness/internal/gen"
	"verifharness/internal/lib"
)

// C17 — raising the read limit never loses a binary identification.
//
// For one input the class (unknown root / text / binary) is computed at
// ascending limits L (all L up to a dense bound, sparse + structural
// neighbourhoods beyond, and 0 = unlimited as the largest). Once binary at L,
// every larger L must be binary. One pass gives all pairs L < L'.

func c17Class(ch lib.Chain) byte {
	if ch.IsRootOnly() {
		return 'u'
	}
	if isTextChain(ch) {
		return 't'
	}
	return 'b'
}

func c17Limits(n int, dense int, extra []int) []int {
	set := map[int]bool{}
	for L := 1; L <= n && L <= dense; L++ {
		set[L] = true
	}
	for L := dense; L <= n; L += 41 {
		set[L] = true
	}
	for _, base := range []int{512, 1024, 1152, 1536, 2048, 3072, 4096, 4176, 8192} {
		for d := -3; d <= 3; d++ {
			if base+d >= 1 && base+d <= n {
				set[base+d] = true
			}
		}
	}
	for _, e := range extra {
		for d := -4; d <= 4; d++ {
			if e+d >= 1 && e+d <= n {
				set[e+d] = true
			}
		}
	}
	set[n] = true
	var ls []int
	for L := range set {
		ls = append(ls, L)
	}
	sort.Ints(ls)
	return ls
}

type c17Payload struct {
	Kind string `json:"kind"`
	In   []byte `json:"in"`
	L1   uint32 `json:"limit_binary"`
	L2   uint32 `json:"limit_lost"` // 0 = unlimited
	InQ  string `json:"in_quoted"`
}

// c17ViaEntry detects x through a reader / a temp file / a named pipe.
func c17ViaEntry(dir string, x []byte, lim uint32, entry string) (lib.Chain, bool) {
	mimetype.SetLimit(lim)
	switch entry {
	case "DetectReader":
		m, err := mimetype.DetectReader(&oddChunks{b: x})
		return lib.ChainOf(m), err == nil
	case "DetectFile":
		f := filepath.Join(dir, "f.bin")
		if os.WriteFile(f, x, 0o600) != nil {
			return nil, false
		}
		m, err := mimetype.DetectFile(f)
		return lib.ChainOf(m), err == nil
	}
	ff := filepath.Join(dir, "fifo")
	os.Remove(ff)
	if syscall.Mkfifo(ff, 0o600) != nil {
		return nil, false
	}
	defer os.Remove(ff)
	done := make(chan struct{})
	go func() {
		defer close(done)
		w, err := os.OpenFile(ff, os.O_WRONLY, 0)
		if err != nil {
			return
		}
		defer w.Close()
		w.Write(x)
	}()
	m, err := mimetype.DetectFile(ff)
	select {
	case <-done:
	case <-time.After(3 * time.Second): // harness liveness only
		if rd, e := os.OpenFile(ff, os.O_RDONLY|syscall.O_NONBLOCK, 0); e == nil {
			<-done
			rd.Close()
		}
	}
	return lib.ChainOf(m), err == nil
}

func c17JudgeInput(c *fw.Ctx, kind string, x []byte, dense int, extra []int) {
	if len(x) == 0 {
		return
	}
	ls := c17Limits(len(x), dense, extra)
	ls = append(ls, 0) // unlimited, the largest
	entry := "Detect"
	if c.Rand.Intn(8) == 0 { // a whole sweep through the reader entry point
		entry = "DetectReaderChunked"
	}
	firstBin, firstBinLeaf := -1, ""
	var sig []byte
	var prevLeaf string
	changes := 0
	c.Trace(func() (string, any) {
		return fw.InputKey(x, 0, "limit-sweep"), c17Payload{Kind: kind, In: x, InQ: fw.Quote(x, 100)}
	})
	for _, L := range ls {
		var ch lib.Chain
		key := fw.InputKey(x, uint32(L), "Detect")
		ok := c.Guard(key, func() any { return c17Payload{Kind: kind, In: x, L1: uint32(L), L2: uint32(L), InQ: fw.Quote(x, 100)} }, func() {
			ch = lib.ChainOf(detectEntry(x, uint32(L), entry))
		})
		c.Eval(1)
		if !ok {
			return
		}
		cl := c17Class(ch)
		if len(sig) == 0 || sig[len(sig)-1] != cl {
			sig = append(sig, cl)
		}
		leaf := ch.Leaf().T + ch.Leaf().Ext
		if leaf != prevLeaf {
			changes++
			prevLeaf = leaf
		}
		if cl == 'b' {
			if firstBin < 0 {
				firstBin, firstBinLeaf = L, ch.String()
			}
			continue
		}
		if firstBin >= 0 {
			what := "unknown application/octet-stream"
			if cl == 't' {
				what = "text (" + ch.String() + ")"
			}
			ll := fmt.Sprint(L)
			if L == 0 {
				ll = "0 (unlimited)"
			}
			c.Violate("binary-identification-lost", fw.InputKey(x, uint32(L), fmt.Sprintf("Detect/after-binary-at-%d", firstBin)),
				fmt.Sprintf("identified as %s with limit %d, but as %s with the larger limit %s; input (%d bytes) %s", firstBinLeaf, firstBin, what, ll, len(x), fw.Quote(x, 80)),
				c17Payload{Kind: kind, In: x, L1: uint32(firstBin), L2: uint32(L), InQ: fw.Quote(x, 100)})
			return
		}
	}
	c.Count("inputs_swept", 1)
	if firstBin >= 0 {
		c.Count("inputs_with_a_binary_identification", 1)
	}
	if changes > 1 {
		fb := "-"
		if firstBin >= 0 {
			fb = strings.SplitN(firstBinLeaf, " <- ", 2)[0]
		}
		c.Distinct(fmt.Sprintf("%s|%d|%s", fb, minInt(firstBin, 600), sig))
	}
	if c.WantSample() && changes > 2 && c.Rand.Intn(200) == 0 {
		c.Sample(map[string]any{"input": fw.Quote(x, 80), "bytes": len(x), "limits_tried": len(ls), "class_sequence": string(sig), "first_binary_at_limit": firstBin, "first_binary_as": firstBinLeaf})
	}
}

func syncsafe(n int) []byte {
	return []byte{byte(n >> 21 & 0x7f), byte(n >> 14 & 0x7f), byte(n >> 7 & 0x7f), byte(n & 0x7f)}
}

// c17Structured builds inputs whose deciding bytes lie at positions given by
// length fields, so that a larger header reveals more.
func c17Structured(r *rand.Rand) ([]byte, string, []int) {
	filler := func(n int) []byte {
		b := make([]byte, n)
		switch r.Intn(4) {
		case 0:
		case 1:
			for i := range b {
				b[i] = byte(r.Intn(256))
			}
		case 2:
			for i := range b {
				b[i] = byte('a' + r.Intn(26))
			}
		default:
			for i := range b {
				b[i] = 0xFF
			}
		}
		return b
	}
	after := [][]byte{{0xFF, 0xFB, 0x90, 0x00}, {0xFF, 0xF1, 0x50, 0x80}, []byte("fLaC\x00\x00\x00\x22"), []byte("junk junk"), {0, 0, 0, 0}, []byte("PK\x03\x04"), {}}
	switch k := r.Intn(11); k {
	case 10: // zstd: skippable frame(s) (magic 0x184D2A5?, little-endian size, payload), then a frame of some kind
		var b bytes.Buffer
		var marks []int
		for fr := 1 + r.Intn(2); fr > 0; fr-- {
			n := []int{0, 1, 4, 100, 500, 1000, 3060, 3064, 4000}[r.Intn(9)] + r.Intn(4)
			b.Write([]byte{byte(0x50 + r.Intn(16)), 0x2A, 0x4D, 0x18})
			b.Write([]byte{byte(n), byte(n >> 8), byte(n >> 16), 0})
			b.Write(filler(n))
			marks = append(marks, b.Len(), b.Len()+4)
		}
		next := [][]byte{{0x28, 0xB5, 0x2F, 0xFD, 0x04, 0x58}, {0x04, 0x22, 0x4D, 0x18, 0x64, 0x40}, {0x02, 0x21, 0x4C, 0x18}, []byte("junk"), {}, {0x1F, 0x8B, 0x08}, {0x25, 0xB5, 0x2F, 0xFD}}
		b.Write(next[r.Intn(len(next))])
		b.Write(filler(r.Intn(200)))
		return b.Bytes(), "zstd-skippable", marks
	case 9: // MARC 21: leader (record length, base address of data), directory, 0x1E, fields
		n := r.Intn(12)
		var dir bytes.Buffer
		for i := 0; i < n; i++ {
			fmt.Fprintf(&dir, "%03d%04d%05d", 1+r.Intn(900), 5+r.Intn(40), i*20)
		}
		base := 24 + dir.Len() + 1
		declared := base
		switch r.Intn(5) {
		case 0: // stale / inexact base address (records edited by hand or by buggy writers)
			declared = base + 1 + r.Intn(60)
		case 1:
			declared = base - 1 - r.Intn(minInt(base-1, 12))
		case 2:
			declared = 99999
		}
		var body bytes.Buffer
		for i := 0; i < n+1; i++ {
			body.WriteString("  \x1fa" + strings.Repeat("field data ", 1+r.Intn(6)) + "\x1e")
		}
		body.WriteByte(0x1d)
		total := 24 + dir.Len() + 1 + body.Len()
		reclen := total
		if r.Intn(4) == 0 {
			reclen = total + []int{-1, 1, 7, 100}[r.Intn(4)]
		}
		var b bytes.Buffer
		fmt.Fprintf(&b, "%05d%s%s a22%05d%s4500", reclen%100000, []string{"n", "c", "p"}[r.Intn(3)], []string{"am", "as", "gm"}[r.Intn(3)], declared%100000, []string{" a ", "   ", "1i "}[r.Intn(3)])
		b.Write(dir.Bytes())
		b.WriteByte(0x1e)
		b.Write(body.Bytes())
		if r.Intn(2) == 0 { // a second record follows
			b.Write(b.Bytes())
		}
		return b.Bytes(), "marc", []int{24, base - 1, base, base + 1, declared - 1, declared, declared + 1, reclen - 1, reclen, reclen + 1}
	case 0: // ID3v2 tag of n bytes, then something
		n := []int{0, 10, 100, 500, 1000, 3000, 3062, 3063, 4000, 6000}[r.Intn(10)] + r.Intn(3)
		var b bytes.Buffer
		b.WriteString("ID3")
		b.Write([]byte{byte(2 + r.Intn(3)), 0, byte(r.Intn(2) * 0x10)})
		b.Write(syncsafe(n))
		b.Write(filler(n))
		b.Write(after[r.Intn(len(after))])
		b.Write(filler(r.Intn(300)))
		return b.Bytes(), "id3", []int{10 + n, 10 + n + 4}
	case 1: // CRX with key/signature lengths, then a zip
		kl, sl := []int{0, 4, 100, 294, 1000, 3000, 3056, 4096, 5000}[r.Intn(9)], []int{0, 4, 128, 256, 1000}[r.Intn(5)]
		var b bytes.Buffer
		b.WriteString("Cr24")
		b.Write([]byte{byte(2 + r.Intn(2)), 0, 0, 0})
		b.Write([]byte{byte(kl), byte(kl >> 8), 0, 0, byte(sl), byte(sl >> 8), 0, 0})
		b.Write(filler(kl + sl))
		b.Write(after[r.Intn(len(after))])
		b.Write(filler(r.Intn(200)))
		return b.Bytes(), "crx", []int{16 + kl + sl, 16 + kl + sl + 4}
	case 2: // tar written by archive/tar, several members, hostile names
		var buf bytes.Buffer
		w := tar.NewWriter(&buf)
		names := []string{"a.txt", "dir/", "portage/gpkg-1", "x/gpkg-1", "pkg/gpkg-1.0/README", "gpkg-1", "long/" + strings.Repeat("n", 120), "ü.txt", "b/c/d.bin"}
		nm := 1 + r.Intn(4)
		for i := 0; i < nm; i++ {
			name := names[r.Intn(len(names))]
			body := filler(r.Intn(700))
			hdr := &tar.Header{Name: name, Mode: 0o644, Size: int64(len(body)), Format: []tar.Format{tar.FormatUSTAR, tar.FormatPAX, tar.FormatGNU}[r.Intn(3)]}
			if strings.HasSuffix(name, "/") {
				hdr.Typeflag, hdr.Size, body = tar.TypeDir, 0, nil
			}
			if w.WriteHeader(hdr) == nil {
				w.Write(body)
			}
		}
		w.Close()
		return buf.Bytes(), "tar", []int{512, 1024, 1536, 2048}
	case 3: // OLE with a late CLSID
		ins := gen.OLEHostile()
		x := ins[r.Intn(len(ins))]
		return x, "ole", []int{512, 520, 592, 608, 1152, 4096, 4176}
	case 4: // Matroska with the DocType late
		ins := gen.MatroskaHostile()
		return ins[r.Intn(len(ins))], "matroska", []int{4090, 4096}
	case 5: // zip family
		ins := gen.ZipHostile()
		return ins[r.Intn(len(ins))], "zip", nil
	case 6: // TrueType / Access hand-over and friends
		heads := []string{"\x00\x01\x00\x00Standard Jet DB\x00", "\x00\x01\x00\x00Standard ACE DB\x00", "\x00\x01\x00\x00Standard Jet D", "\x00\x01\x00\x00\x00\x10\x01\x00\x00\x04", "\x00\x00\x01\x00\x01\x00\x10\x10", "\x00\x00\x00\x0cjP  \x0d\x0a\x87\x0a\x00\x00\x00\x14ftypjp2 ", "\xCA\xFE\xBA\xBE\x00\x00\x00\x34", "\xCA\xFE\xBA\xBE\x00\x00\x00\x02"}
		h := heads[r.Intn(len(heads))]
		return append([]byte(h), filler(r.Intn(200))...), "handover", nil
	case 7: // ogg / png / riff with the sub-type marker late
		heads := []string{"OggS\x00\x02" + string(make([]byte, 22)) + "\x01vorbis", "OggS\x00\x02" + string(make([]byte, 22)) + "\x80theora", "\x89PNG\x0d\x0a\x1a\x0a" + string(make([]byte, 29)) + "acTL", "RIFF\x00\x00\x00\x00WEBPVP8 ", "RIFF\x10\x00\x00\x00AVI LIST\x00", "!<arch>\ndebian-binary   ", "\x7fELF\x02\x01\x01\x00\x00\x00\x00\x00\x00\x00\x00\x00\x03\x00"}
		h := heads[r.Intn(len(heads))]
		return append([]byte(h), filler(r.Intn(100))...), "late-subtype", nil
	default: // dicom / mobi / gimp at fixed offsets
		n := []int{128, 60, 20, 20}[r.Intn(4)]
		sig := map[int]string{128: "DICM", 60: "BOOKMOBI", 20: "GPAT"}[n]
		b := filler(n)
		if r.Intn(2) == 0 {
			for i := range b {
				b[i] = byte('a' + r.Intn(26))
			}
		}
		b = append(b, sig...)
		return append(b, filler(r.Intn(50))...), "fixed-offset", []int{n, n + len(sig)}
	}
}

func memAvailableGiB() int {
	b, err := os.ReadFile("/proc/meminfo")
	if err != nil {
		return 0
	}
	for _, l := range strings.Split(string(b), "\n") {
		if strings.HasPrefix(l, "MemAvailable:") {
			f := strings.Fields(l)
			if len(f) >= 2 {
				kb, _ := strconv.Atoi(f[1])
				return kb >> 20
			}
		}
	}
	return 0
}

func c17Run(c *fw.Ctx, b fw.Batch) {
	r := c.Rand
	seeds := lib.Seeds()
	switch b.Kind {
	case "seeds":
		lo, hi := split(len(seeds), b.Idx, b.Of)
		for _, s := range seeds[lo:hi] {
			if len(s) > 6000 {
				s = s[:6000]
			}
			c17JudgeInput(c, "seed", s, 1536, nil)
			// tails appended: random bytes, text, zeros
			for k := 0; k < 4 && len(s) > 0 && len(s) < 1500; k++ {
				tail := make([]byte, 50+r.Intn(1200))
				switch k {
				case 0:
					for i := range tail {
						tail[i] = byte(r.Intn(256))
					}
				case 1:
					for i := range tail {
						tail[i] = byte('a' + r.Intn(26))
					}
				case 2:
				default:
					copy(tail, seeds[r.Intn(len(seeds))])
				}
				c17JudgeInput(c, "seed+tail", append(append([]byte{}, s...), tail...), 1536, []int{len(s)})
			}
			// one long tail (beyond 4096 and 8192) with sparse limits
			if len(s) > 0 && len(s) < 1500 {
				tail := make([]byte, 9000)
				for i := range tail {
					switch b.Idx % 3 {
					case 0:
						tail[i] = byte(r.Intn(256))
					case 1:
						tail[i] = byte('a' + r.Intn(26))
					}
				}
				c17JudgeInput(c, "seed+long-tail", append(append([]byte{}, s...), tail...), 200, []int{len(s), 2000, 2048, 4096, 8192, 9000})
			}
			for k := 0; k < b.N && len(s) > 0; k++ {
				m := append([]byte{}, s...)
				if len(m) > 1500 {
					m = m[:1500]
				}
				for j := r.Intn(4); j >= 0; j-- {
					m[r.Intn(len(m))] = byte(r.Intn(256))
				}
				c17JudgeInput(c, "seed-mutant", m, 1536, nil)
			}
			// ASCII digit runs in the first 64 bytes are length / offset fields (MARC leader,
			// tar and cpio numbers, ar sizes): rewrite each run with boundary values
			if len(s) >= 24 {
				hd := s
				if len(hd) > 3000 {
					hd = hd[:3000]
				}
				for i := 0; i < 64 && i < len(hd); {
					j := i
					for j < len(hd) && j < 80 && hd[j] >= '0' && hd[j] <= '9' {
						j++
					}
					if j-i >= 3 {
						w := j - i
						for _, v := range []int{0, 1, 24, 25, len(hd) / 2, len(hd) - 1, len(hd), len(hd) + 1, 99999999} {
							m := append([]byte{}, hd...)
							num := fmt.Sprintf("%0*d", w, v)
							if len(num) > w {
								num = num[len(num)-w:]
							}
							copy(m[i:j], num)
							c17JudgeInput(c, "seed-digit-field", m, 300, []int{v - 1, v, v + 1})
							c.Count("digit_field_rewrites", 1)
						}
						i = j
					} else {
						i = j + 1
					}
				}
			}
		}
	case "dictionary":
		// tokens taken from the signature tables of the tree under test are placed
		// behind the first bytes of every short binary seed (and at fixed small offsets
		// on their own): a signature that another check inspects behind a format's magic
		// must hand the file over to a binary format, never drop it
		dict := lib.SourceDictionary()
		c.Max("source_dictionary_tokens", int64(len(dict)))
		var heads [][]byte
		for _, s := range seeds {
			if len(s) >= 2 && len(s) <= 64 && c17Class(lib.ChainOf(lib.Detect(s, 0))) == 'b' {
				heads = append(heads, s)
			}
		}
		if b.Idx == 0 {
			// every token inside ordinary text and inside zero bytes, with 300 bytes behind it
			// (a check that looks for a marker relative to the END of what it is given moves with the limit)
			for _, tok := range dict {
				if len(tok) == 0 || len(tok) > 64 {
					continue
				}
				for _, pre := range []string{"", "forty bytes of ordinary text in front: ", "\x00\x00\x00\x00"} {
					x := append(append([]byte(pre), tok...), bytes.Repeat([]byte("tail text. "), 28)...)
					c17JudgeInput(c, "text+dictionary-token+text", x, 400, []int{len(pre) + len(tok), len(pre) + len(tok) + 128, len(pre) + 128})
				}
			}
		}
		lo, hi := split(len(heads), b.Idx, b.Of)
		for _, hd := range heads[lo:hi] {
			for _, k := range []int{2, 4, 8, len(hd)} {
				if k > len(hd) {
					continue
				}
				for ti, tok := range dict {
					_ = ti
					x := append(append(append([]byte{}, hd[:k]...), tok...), "\x00\x00rest of the file"...)
					c17JudgeInput(c, "magic+dictionary-token", x, b.N, []int{k, k + len(tok)})
				}
			}
		}
	case "huge-limit":
		// DetectReader / DetectFile with limits next to 2^32 (one call at a time: the
		// reader path allocates `limit` bytes by design)
		if memAvailableGiB() < 24 {
			c.Count("huge_limit_cases_skipped_low_memory", 1)
			c.Distinct("huge-limit-skipped")
			c.Distinct("huge-limit-skipped-2")
			c.Eval(1)
			return
		}
		for _, s := range [][]byte{seeds[0], []byte("\x89PNG\x0d\x0a\x1a\x0a\x00\x00\x00\x0dIHDR"), []byte("%PDF-1.7\n")} {
			small := lib.ChainOf(lib.Detect(s, 3072))
			if c17Class(small) != 'b' {
				continue
			}
			for _, lim := range []uint32{1 << 31, 1<<32 - 4096, 1<<32 - 1} {
				var ch lib.Chain
				key := fw.InputKey(s, lim, "DetectReader/huge-limit")
				pl := c17Payload{Kind: "huge-limit", In: s, L1: 3072, L2: lim}
				c.Trace(func() (string, any) { return key, pl })
				if !c.Guard(key, func() any { return pl }, func() {
					mimetype.SetLimit(lim)
					m, _ := mimetype.DetectReader(bytes.NewReader(s))
					ch = lib.ChainOf(m)
				}) {
					continue
				}
				mimetype.SetLimit(3072)
				debug.FreeOSMemory()
				c.Eval(1)
				c.Count("reader_detections_with_limit_near_2^32", 1)
				if c17Class(ch) != 'b' {
					c.Violate("binary-identification-lost", key, fmt.Sprintf("identified as %s with limit 3072, but as %s through DetectReader with limit %d", small, ch, lim), pl)
				}
				c.Distinct(fmt.Sprintf("huge|%d", lim))
			}
		}
	case "entry-points":
		// the same sweep through DetectReader and DetectFile (regular temp file and a named
		// pipe: stat size 0, not seekable): once binary, binary at every larger limit incl. 0
		dir, err := os.MkdirTemp("", "verif-c17-")
		if err != nil {
			panic("verif harness: " + err.Error())
		}
		defer os.RemoveAll(dir)
		var bins [][]byte
		for _, s := range seeds {
			if len(s) >= 8 && len(s) <= 6000 && c17Class(lib.ChainOf(lib.Detect(s, 3072))) == 'b' {
				bins = append(bins, s)
			}
		}
		// a format that is decided far into the input (Chrome extension: key + signature of
		// 1.5 MiB and 3 MiB in front of the zip) through reader and file with limits of 1 … 5 MiB
		for _, hl := range []int{3 << 19, 3 << 20} {
			var bb bytes.Buffer
			bb.WriteString("Cr24")
			bb.Write([]byte{2, 0, 0, 0})
			bb.Write([]byte{byte(hl), byte(hl >> 8), byte(hl >> 16), byte(hl >> 24), 0, 0, 0, 0})
			key := make([]byte, hl)
			for i := range key {
				key[i] = byte(i*31 + 7)
			}
			bb.Write(key)
			bb.WriteString("PK\x03\x04\x14\x00\x00\x00\x08\x00")
			bb.Write(make([]byte, 5<<19)) // the file goes on for 2.5 MiB behind the header
			x := bb.Bytes()
			for _, entry := range []string{"Detect", "DetectReader", "DetectFile"} {
				first, firstAt := byte(0), 0
				for _, L := range []int{1 << 20, 16 + hl - 1, 16 + hl + 4, 2 << 20, 2<<20 + 1, 16 + hl + 4097, 4 << 20, 5<<20 + 3, 0} {
					var ch lib.Chain
					okv := true
					if entry == "Detect" {
						ch = lib.ChainOf(lib.Detect(x, uint32(L)))
					} else {
						ch, okv = c17ViaEntry(dir, x, uint32(L), entry)
					}
					if !okv {
						continue
					}
					c.Eval(1)
					c.Count("late_decided_format_detections", 1)
					cl := c17Class(ch)
					if first == 'b' && cl != 'b' && (L == 0 || L > firstAt) {
						c.Violate("binary-identification-lost", fw.InputKey(x[:64], uint32(L), entry+"/crx-big-header"), fmt.Sprintf("through %s a Chrome extension with a %d-byte key is binary at limit %d and %s at limit %d", entry, hl, firstAt, ch, L), c17Payload{Kind: "huge-limit", In: x[:64], L1: uint32(firstAt), L2: uint32(L)})
					}
					if first != 'b' && cl == 'b' && L != 0 {
						first, firstAt = 'b', L
					}
				}
			}
		}
		for i := 0; i < 24 && len(bins) > 0; i++ {
			x := bins[r.Intn(len(bins))]
			for _, entry := range []string{"DetectReader", "DetectFile", "DetectFile-fifo"} {
				first, firstAt := byte(0), 0
				for _, L := range []int{4, 8, 16, 64, 512, len(x) - 1, len(x), len(x) + 1, 3072, 65536, 0} {
					if L < 0 {
						continue
					}
					ch, ok := c17ViaEntry(dir, x, uint32(L), entry)
					if !ok {
						c.Count("entry_point_cases_skipped", 1)
						continue
					}
					c.Eval(1)
					c.Count("entry_point_detections_"+entry, 1)
					cl := c17Class(ch)
					if first == 'b' && cl != 'b' && (L == 0 || L > firstAt) {
						c.Violate("binary-identification-lost", fw.InputKey(x, uint32(L), entry), fmt.Sprintf("through %s: binary at limit %d, %s at limit %d", entry, firstAt, ch, L), c17Payload{Kind: "entry:" + entry, In: x, L1: uint32(firstAt), L2: uint32(L)})
					}
					if first != 'b' && cl == 'b' && L != 0 {
						first, firstAt = 'b', L
					}
				}
			}
		}
	case "structured":
		for i := 0; i < b.N; i++ {
			x, kind, extra := c17Structured(r)
			if len(x) > 9000 {
				x = x[:9000]
			}
			c17JudgeInput(c, kind, x, 700, extra)
		}
	}
}

func init() {
	fw.Register(&fw.Prop{
		ID:    "C17",
		Level: "exploration",
		Rule: "inputs = every seed (first 6000 bytes), seeds with random / text / zero / other-seed tails appended (incl. one 9000-byte tail per seed swept sparsely past 4096 and 8192), seed mutants, seeds whose ASCII digit fields in the first 64 bytes (MARC leader, tar / cpio / ar numbers) are rewritten with boundary values, and structured inputs whose deciding bytes sit at offsets given by length fields or at late fixed offsets (ID3v2 tags of 0-6000 bytes followed by MPEG / AAC / FLAC / junk, CRX with key+signature lengths to 6000 followed by zip or junk, multi-member tar archives from archive/tar with hostile member names, OLE with late CLSIDs, Matroska with a late DocType, hand-built zips, the TrueType -> Access hand-over, late sub-type markers, DICOM / MOBI / GIMP offsets, MARC 21 records with exact and inexact record lengths / base addresses, zstd skippable frames followed by zstd / lz4 / other frames); every short binary seed's first 2 / 4 / 8 / all bytes followed by tokens from a dictionary of all string and byte-slice literals of the signature packages, read from the tree under test at run time; DetectReader with limits next to 2^32 (skipped when less than 24 GiB of memory is available); limit sweeps of binary seeds through an oddly chunking reader, a temp file and a named pipe (stat size 0). For each input the class is computed at EVERY limit up to a dense bound (1536 / 700), sparsely beyond, around 512 / 1024 / 1152 / 3072 / 4096 and around the structure's own offsets, and at 0 as the largest; once binary, every larger limit must be binary. " +
			"non-trivial = the reported leaf changes at least twice along the limit sweep; distinct = distinct (first binary leaf, limit at which it first appeared, class sequence) tuples.",
		Assumptions: []string{
			"text = text/plain somewhere in the hierarchy; unknown = the parentless application/octet-stream root",
			"limits between the sparse sample points beyond the dense bound are not executed",
		},
		Plan: func(tier string, seed int64) []fw.Batch {
			nm, ns := 30, 3000
			if tier == "thorough" {
				nm, ns = 600, 60000
			}
			var bs []fw.Batch
			bs = append(bs, batches("seeds", 20, nm, 3000)...)
			bs = append(bs, batches("structured", 12, ns, 3000)...)
			nd := 1 // dense bound of the limit sweep per (head, token) input: limits around the token only
			if tier == "thorough" {
				nd = 64
			}
			bs = append(bs, batches("dictionary", 8, nd, 3000)...)
			hlb := batches("huge-limit", 1, 0, 900)
			hlb[0].Slow = true // 4 GiB buffers: no hang verdict from timing
			bs = append(bs, hlb...)
			bs = append(bs, batches("entry-points", 1, 0, 3000)...)
			return bs
		},
		Run: c17Run,
		Replay: func(c *fw.Ctx, payload stdjson.RawMessage) {
			var p c17Payload
			if err := stdjson.Unmarshal(payload, &p); err != nil {
				fmt.Println("bad payload:", err)
				return
			}
			if p.Kind == "huge-limit" {
				c17Run(c, fw.Batch{Kind: "huge-limit"})
				return
			}
			if strings.HasPrefix(p.Kind, "entry:") {
				dir, _ := os.MkdirTemp("", "verif-c17-")
				defer os.RemoveAll(dir)
				e := strings.TrimPrefix(p.Kind, "entry:")
				a, _ := c17ViaEntry(dir, p.In, p.L1, e)
				bch, _ := c17ViaEntry(dir, p.In, p.L2, e)
				if c17Class(a) == 'b' && c17Class(bch) != 'b' {
					c.Violate("binary-identification-lost", fw.InputKey(p.In, p.L2, e), fmt.Sprintf("through %s: binary at limit %d, %s at limit %d", e, p.L1, bch, p.L2), p)
				}
				return
			}
			a := c17Class(lib.ChainOf(lib.Detect(p.In, p.L1)))
			bch := lib.ChainOf(lib.Detect(p.In, p.L2))
			if a == 'b' && c17Class(bch) != 'b' {
				c.Violate("binary-identification-lost", fw.InputKey(p.In, p.L2, "Detect"), fmt.Sprintf("binary at limit %d, %s at limit %d", p.L1, bch, p.L2), p)
			}
		},
		Finish: func(a *fw.Agg) error {
			if a.Counters["inputs_with_a_binary_identification"] < 1000 {
				return fmt.Errorf("only %d inputs had a binary identification", a.Counters["inputs_with_a_binary_identification"])
			}
			return nil
		},
	})
}
