package props

import (
	"bytes"
	stdjson "encoding/json"
	"fmt"
	"strings"
	"sync"
	"unicode/utf8"

	"github.com/gabriel-vasile/mimetype"

	"verifharness/internal/fw"
	"verifharness/internal/gen"
	"verifharness/internal/lib"
)

// C08 — well-formed JSON is recognised, whole or truncated.
//
// Oracle: the generator output is validated with encoding/json.Valid (strict
// RFC 8259); first non-space byte '[' or '{'; nesting <= 4096. For every limit
// L from index(opening bracket)+1 to len+1, and 0, the result must be in the
// application/json family, unless the reported chain leaves the path
// root -> text/plain -> application/json at a node of higher priority (a root
// child before text/plain, or a text/plain child before application/json).

// jsonFamilyOrException classifies a result chain: "json", "exception" (a
// higher-priority node took it) or "miss".
func jsonFamilyOrException(t *lib.Tree, ch lib.Chain) (string, string) {
	if inJSONFamily(ch) {
		return "json", ""
	}
	textID := t.Find("text/plain", ".txt")
	jsonID := t.Find("application/json", ".json")
	path := t.PathOfChain(ch)
	if path == nil || len(path) < 2 {
		return "miss", "result is not a path of the tree or is the bare root"
	}
	if path[1] != textID {
		if t.ChildIndex(path[1]) < t.ChildIndex(textID) {
			return "exception", t.Nodes[path[1]].MIME
		}
		return "miss", "diverged at a root child after text/plain"
	}
	if len(path) < 3 {
		return "miss", "stopped at text/plain"
	}
	if t.ChildIndex(path[2]) < t.ChildIndex(jsonID) && pinnedPrecedes(t.Nodes[path[2]].MIME, "application/json") {
		return "exception", t.Nodes[path[2]].MIME
	}
	return "miss", "a lower-priority text format (" + t.Nodes[path[2]].MIME + ") was reported"
}

func openIndex(d []byte) int {
	for i, c := range d {
		if c == ' ' || c == '\t' || c == '\r' || c == '\n' {
			continue
		}
		if c == '[' || c == '{' {
			return i
		}
		return -1
	}
	return -1
}

// tokenKindAt describes what the byte before the cut belongs to (for the
// distinct rule); it is a cheap lexical scan of a *valid* document.
func tokenKindsAt(d []byte) []byte {
	kinds := make([]byte, len(d)) // kind of byte i: s=in string, e=escape, n=number, l=literal, w=space, p=punct
	inStr, esc := false, 0
	for i, c := range d {
		switch {
		case inStr && esc > 0:
			kinds[i] = 'e'
			esc--
			if esc == 0 && c == 'u' {
				esc = 4
			}
		case inStr && c == '\\':
			kinds[i] = 'e'
			esc = 1
		case inStr && c == '"':
			kinds[i] = 'q'
			inStr = false
		case inStr:
			kinds[i] = 's'
			if c >= 0x80 {
				kinds[i] = 'u'
			}
		case c == '"':
			kinds[i] = 'q'
			inStr = true
		case c == ' ' || c == '\t' || c == '\r' || c == '\n':
			kinds[i] = 'w'
		case c == '-' || c == '+' || c == '.' || (c >= '0' && c <= '9') || c == 'e' && i > 0 && kinds[i-1] == 'n' || c == 'E':
			kinds[i] = 'n'
		case c >= 'a' && c <= 'z':
			kinds[i] = 'l'
		default:
			kinds[i] = c // punctuation itself: [ ] { } , :
		}
	}
	return kinds
}

func c08JudgeDoc(c *fw.Ctx, t *lib.Tree, kind string, d []byte, limits []uint32, classify bool) {
	op := openIndex(d)
	if op < 0 || !stdjson.Valid(d) {
		panic(fmt.Sprintf("verif harness: generator produced an invalid document: %q", d))
	}
	var kinds []byte
	if classify {
		kinds = tokenKindsAt(d)
	}
	for _, L := range limits {
		if L != 0 && int(L) <= op {
			continue
		}
		entry := pickEntry(c)
		key := fw.InputKey(d, L, entry)
		c.Trace(func() (string, any) { return key, fw.MkInCase(kind, d, L, entry, "") })
		var ch lib.Chain
		var m *mimetype.MIME
		ok := c.Guard(key, func() any { return fw.MkInCase(kind, d, L, entry, "panic") }, func() {
			m = detectEntry(d, L, entry)
			ch = lib.ChainOf(m)
		})
		c.Eval(1)
		if !ok {
			continue
		}
		anomalyC02(c, m, nil)
		truncated := L != 0 && int(L) <= len(d)
		verdict, why := jsonFamilyOrException(t, ch)
		switch verdict {
		case "json":
			if truncated {
				c.Count("recognised_truncated", 1)
			} else {
				c.Count("recognised_whole", 1)
			}
		case "exception":
			if ok, sig := exceptionJustified(why, lib.Header(d, L)); !ok {
				c.Violate("json-not-recognised", key,
					fmt.Sprintf("valid JSON document reported as the higher-priority format %s, whose signature the examined bytes do not carry (%s); result %s; doc %s limit %d", why, sig, ch, fw.Quote(d, 100), L),
					fw.MkInCase(kind, d, L, entry, "higher-priority format claimed without its signature"))
				break
			}
			c.Count("exception_higher_priority_format", 1)
			c.SetAdd("exception_formats", why)
		default:
			mode := "whole"
			if truncated {
				mode = fmt.Sprintf("cut at %d of %d", L, len(d))
			}
			c.Violate("json-not-recognised", key,
				fmt.Sprintf("valid JSON document (%s) reported as %s: %s; doc %s", mode, ch, why, fw.Quote(d, 100)),
				fw.MkInCase(kind, d, L, entry, "valid JSON not reported in the application/json family"))
		}
		if classify && truncated && int(L) < len(d) && int(L) >= 1 {
			prev := byte('^')
			if L >= 2 {
				prev = kinds[L-2]
			}
			c.Distinct(fmt.Sprintf("cut|%c|%c|%c", prev, kinds[L-1], kinds[L]))
		}
	}
	if c.WantSample() && len(d) < 90 && len(d) > 12 && c.Rand.Intn(300) == 0 {
		c.Sample(map[string]any{"document": string(d), "limits_tried": len(limits), "kind": kind})
	}
}

func allLimits(d []byte) []uint32 {
	op := openIndex(d)
	ls := []uint32{0}
	for L := op + 1; L <= len(d)+1; L++ {
		ls = append(ls, uint32(L))
	}
	return ls
}

var c08Fixed = []string{
	`[]`, `{}`, `[[]]`, `[{}]`, `{"a":[]}`, `{"a":{}}`, ` [ ] `, "\n{\n}\n",
	`[",abc def", 1]`, `{"a":", hello"}`, `["]"]`, `["}"]`, `{"a":"}"}`, `{"}":"]"}`, `["["]`, `["{"]`, `[":"]`, `{"a:":":b"}`,
	`["\""]`, `["\\"]`, `["\\\""]`, `{"a\"":"b\\"}`, `["é😀"]`, `["é€😀"]`, `[1,2.5,-3e10,4E-2,0]`, `[true,false,null]`,
	`{"k":[1,{"k":[2,{"k":[]}]}]}`, `[[[[[[[[[[1]]]]]]]]]]`, "[1,\r\n2,\r\n3]", "{\"a\" : 1 ,\t\"b\" : [ ] }",
	`{"type":"Feature","geometry":{"type":"Point","coordinates":[1,2]}}`, `{"log":{"version":"1.2","creator":{},"entries":[]}}`, `{"asset":{"version":"2.0"},"scenes":[]}`,
	`["<svg"]`, `[  "Standard Jet DB"]`, `[  "Standard ACE DB"]`, `{"x":"<svg xmlns"}`, `[                  "GPAT"]`, `[                  "GIMP"]`,
	`{"a":"#!/usr/bin/python"}`, `["<?xml version"]`, `["<html>"]`, `["PK\u0003\u0004"]`,
}

func c08Run(c *fw.Ctx, b fw.Batch) {
	t := baseTree()
	r := c.Rand
	switch b.Kind {
	case "fixed":
		for _, s := range c08Fixed {
			c08JudgeDoc(c, t, "fixed", []byte(s), allLimits([]byte(s)), true)
		}
	case "random":
		for i := 0; i < b.N; i++ {
			o := gen.JSONOpts{MaxDepth: 1 + r.Intn(5), MaxItems: 1 + r.Intn(5), WS: r.Intn(3), Hostile: r.Intn(2) == 0, NoSvg: r.Intn(10) != 0}
			d := gen.JSONDoc(r, o)
			if len(d) > 700 {
				continue
			}
			c08JudgeDoc(c, t, "random", d, allLimits(d), true)
		}
	case "dictionary":
		// every printable literal of the tree's source as a string value / key, placed so that it
		// starts at offsets 2 … 40, 56 … 64 and 124 … 132 of the document (where offset-based
		// signatures look): JSON stays JSON unless the bytes carry a pinned higher-priority signature
		var lits [][]byte
		for _, lit := range lib.SourceDictionary() {
			if len(lit) < 2 || len(lit) > 40 || !utf8.Valid(lit) {
				continue
			}
			okc := true
			for _, ch := range lit {
				if ch < 0x20 || ch == '"' || ch == '\\' || ch == 0x7f {
					okc = false
				}
			}
			if okc {
				lits = append(lits, lit)
			}
		}
		lo, hi := split(len(lits), b.Idx, b.Of)
		var offs []int
		for o := 2; o <= 40; o++ {
			offs = append(offs, o)
		}
		offs = append(offs, 56, 57, 58, 59, 60, 61, 62, 63, 64, 124, 125, 126, 127, 128, 129, 130, 131, 132, 256, 257, 258)
		for _, lit := range lits[lo:hi] {
			for _, o := range offs {
				pads := []string{"a"}
				if o <= 12 { // the bytes in front of an early signature are often a size / version field
					pads = []string{"a", " ", "d", "0", "\u0000"[:0] + "~"}
				}
				for shape := 0; shape < 2*len(pads); shape++ {
					var d []byte
					pad := []byte(pads[shape/2])
					if shape%2 == 0 {
						d = append(append(append([]byte(`["`), bytes.Repeat(pad, o-2)...), lit...), `", 1]`...)
					} else {
						d = append(append(append([]byte(`{"`), bytes.Repeat(pad, o-2)...), lit...), `":{"x":[true]}}`...)
					}
					if !stdjson.Valid(d) {
						continue
					}
					c08JudgeDoc(c, t, "dictionary", d, []uint32{0, uint32(len(d)), uint32(len(d) + 1), 3072, uint32(o + len(lit)), uint32(o + len(lit) + 1)}, false)
					c.Count("dictionary_documents", 1)
				}
			}
		}
	case "concurrent":
		// 16 goroutines detect different valid documents at the same time: each verdict must be the
		// document's own (pooled parser state handed over too early shows as a lost verdict)
		var docs [][]byte
		for len(docs) < 64 {
			o := gen.JSONOpts{MaxDepth: 1 + r.Intn(4), MaxItems: 1 + r.Intn(5), WS: r.Intn(3), Hostile: true, NoSvg: true}
			d := gen.JSONDoc(r, o)
			if len(d) > 30 && len(d) < 3000 && stdjson.Valid(d) {
				docs = append(docs, d)
			}
		}
		mimetype.SetLimit(0)
		var wg sync.WaitGroup
		bad := make(chan []byte, 64)
		for g := 0; g < 16; g++ {
			wg.Add(1)
			go func(g int) {
				defer wg.Done()
				for i := 0; i < b.N; i++ {
					d := docs[(g*7+i)%len(docs)]
					if !inJSONFamily(lib.ChainOf(mimetype.Detect(d))) {
						select {
						case bad <- d:
						default:
						}
						return
					}
				}
			}(g)
		}
		wg.Wait()
		close(bad)
		c.Eval(int64(16 * b.N))
		c.Count("concurrent_detections", int64(16*b.N))
		for d := range bad {
			if v, _ := jsonFamilyOrException(t, lib.ChainOf(mimetype.Detect(d))); v == "json" {
				c.Violate("json-not-recognised", fw.InputKey(d, 0, "Detect/concurrent"), fmt.Sprintf("valid JSON document is reported as JSON when detected alone but was reported otherwise while 16 goroutines were detecting JSON documents; doc %s", fw.Quote(d, 100)), fw.MkInCase("concurrent", d, 0, "Detect", "verdict lost under concurrency"))
			}
		}
		mimetype.SetLimit(3072)
	case "big":
		// more than 4 KiB and 64 KiB of RFC 8259 white space in front of / behind a small document
		for _, n := range []int{4095, 4096, 5000, 70000} {
			for _, ws := range []string{" ", "\n", " \r\n\t"} {
				pad := strings.Repeat(ws, n/len(ws)+1)
				d := []byte(pad + `{"k":[1,2,{"a":"b"}]}` + pad)
				c08JudgeDoc(c, t, "padded", d, []uint32{0, uint32(len(d) + 1), uint32(len(d)), uint32(len(pad) + 5), 1 << 20}, false)
			}
		}
		// documents of 5 MiB and 17 MiB examined in full (limit 0, limit > len) and cut late
		for _, size := range []int{5 << 20, 17 << 20} {
			var sb bytes.Buffer
			sb.WriteString(" [")
			for sb.Len() < size {
				sb.WriteString(`{"k":[1,2,3],"s":"some text \u00e9"},`)
			}
			sb.WriteString(`{"type":"Feature"}]`)
			d := sb.Bytes()
			c08JudgeDoc(c, t, "big", d, []uint32{0, uint32(len(d) + 1), uint32(len(d)), uint32(len(d) - 7), 1 << 22, 3072}, false)
			c.Count("documents_of_5_MiB_and_more", 1)
		}
	case "long":
		// long documents: cut by the default limit and at sampled points
		for i := 0; i < b.N; i++ {
			var sb strings.Builder
			sb.WriteString("[")
			for sb.Len() < 3000+r.Intn(3000) {
				o := gen.JSONOpts{MaxDepth: 3, MaxItems: 4, WS: r.Intn(3), Hostile: true, NoSvg: true}
				sb.Write(gen.JSONDoc(r, o))
				sb.WriteString(",")
			}
			sb.WriteString("null]")
			d := []byte(sb.String())
			ls := []uint32{0, 3072, uint32(len(d)), uint32(len(d) + 1), 1, 2}
			for k := 0; k < 150; k++ {
				ls = append(ls, uint32(1+r.Intn(len(d))))
			}
			for L := 3040; L < 3110; L++ {
				ls = append(ls, uint32(L))
			}
			c08JudgeDoc(c, t, "long", d, ls, true)
			// the limit is changed while DetectReader reads (the reader calls SetLimit in its first Read):
			// the document is longer than both limits, so under either one it is JSON
			for k := 0; k < 6; k++ {
				l1 := uint32(1 + r.Intn(len(d)-1))
				l2 := []uint32{0, uint32(1 + r.Intn(len(d)-1)), 1 << 20, uint32(len(d) + 5)}[r.Intn(4)]
				var ch lib.Chain
				key := fw.InputKey(d, l1, fmt.Sprintf("DetectReader/limit-changes-to-%d", l2))
				pl := fw.MkInCase("long-limit-change", d, l1, "DetectReader", fmt.Sprint(l2))
				if !c.Guard(key, func() any { return pl }, func() {
					mimetype.SetLimit(l1)
					m, _ := mimetype.DetectReader(&c05Reader{b: d, s: c05Sched{Chunk: 512, ErrAt: -1, SetLimitTo: int64(l2)}, sentAt: -1})
					ch = lib.ChainOf(m)
				}) {
					continue
				}
				c.Eval(1)
				c.Count("reader_detections_with_limit_change", 1)
				if v, why := jsonFamilyOrException(t, ch); v == "miss" {
					c.Violate("json-not-recognised", key, fmt.Sprintf("valid %d-byte JSON document read through DetectReader while the limit changes from %d to %d is reported as %s: %s", len(d), l1, l2, ch, why), pl)
				}
			}
		}
	case "ladder":
		// depth ladders up to the documented cap of 4096
		type shape struct{ open, mid, close string }
		shapes := []shape{{"[", "", "]"}, {`{"k":`, "1", "}"}, {`[{"k":`, `"v"`, "}]"}, {"[ ", "", " ]"}, {"[\n", "null", "\n]"}, {`{"a":[`, `true`, `]}`}}
		depths := []int{1, 2, 3, 10, 100, 127, 128, 129, 1000, 2047, 2048, 4000, 4095, 4096}
		var jobs [][2]int
		for si := range shapes {
			for _, d := range depths {
				jobs = append(jobs, [2]int{si, d})
			}
		}
		lo, hi := split(len(jobs), b.Idx, b.Of)
		for _, j := range jobs[lo:hi] {
			sh := shapes[j[0]]
			depth := j[1]
			per := 1
			if strings.Contains(sh.open, "[{") || strings.Contains(sh.open, ":[") {
				per = 2
			}
			d := gen.Nest(sh.open, sh.mid, sh.close, depth/per)
			if depth/per == 0 {
				continue
			}
			ls := []uint32{0, uint32(len(d)), uint32(len(d) + 1), 3072, 1 << 31}
			for k := 0; k < 40; k++ {
				ls = append(ls, uint32(1+r.Intn(len(d))))
			}
			half := len(gen.Nest(sh.open, "", "", depth/per))
			for L := half - 3; L <= half+len(sh.mid)+3; L++ {
				if L > 0 {
					ls = append(ls, uint32(L))
				}
			}
			c08JudgeDoc(c, t, fmt.Sprintf("ladder-depth-%d", depth), d, ls, false)
			c.Distinct(fmt.Sprintf("ladder|%d|%d", j[0], depth))
			c.Max("max_nesting_depth_recognised", int64(depth/per*per))
		}
	}
}

func init() {
	fw.Register(&fw.Prop{
		ID:    "C08",
		Level: "exploration",
		Rule: "documents = fixed hostile list + random RFC 8259 documents (all scalar spellings, empty containers, 3 whitespace layouts incl. CRLF, strings beginning/ending with , } ] [ { : \\\" \\\\, \\uXXXX and surrogate escapes, 2-4 byte runes), each checked with encoding/json.Valid, detected at EVERY limit from the opening bracket +1 to len+1 and 0; long documents cut around the default limit; nesting ladders to depth 4096. " +
			"non-trivial = a truncated detection with the cut strictly inside the document; distinct = distinct (token class two bytes before the cut, class of the last examined byte, class of the first unexamined byte) triples, plus (shape, depth) ladder points.",
		Assumptions: []string{
			"encoding/json.Valid is the definition of RFC 8259 well-formedness",
			"the exception clause: the reported format must precede application/json in the pinned priority order AND the examined bytes must carry that format's signature as pinned at the time of the statement (svg, msaccess, gimp: the only ones the generator can trigger)",
		},
		Plan: func(tier string, seed int64) []fw.Batch {
			n, nl := 12000, 40
			if tier == "thorough" {
				n, nl = 150000, 400
			}
			var bs []fw.Batch
			bs = append(bs, batches("fixed", 1, 0, 600)...)
			bs = append(bs, batches("random", 12, n, 1800)...)
			bs = append(bs, batches("long", 4, nl, 1800)...)
			bs = append(bs, batches("ladder", 8, 0, 1800)...)
			bs = append(bs, batches("dictionary", 6, 0, 1800)...)
			bs = append(bs, batches("big", 1, 0, 1800)...)
			bs = append(bs, batches("concurrent", 2, 30000, 1800)...)
			rc := batches("concurrent", 2, 4000, 1800)
			for i := range rc {
				rc[i].Name = "race-" + rc[i].Name
				rc[i].Race = true // every DATA RACE report of the race build is a violation
			}
			bs = append(bs, rc...)
			return bs
		},
		Run: c08Run,
		Replay: func(c *fw.Ctx, payload stdjson.RawMessage) {
			ic, err := replayInCase(payload)
			if err != nil {
				fmt.Println("bad payload:", err)
				return
			}
			forcedEntry = ic.Entry
			c08JudgeDoc(c, baseTree(), ic.Kind, ic.In, []uint32{ic.Limit}, false)
		},
		Finish: func(a *fw.Agg) error {
			if a.Counters["recognised_truncated"] < 1000 || a.Counters["recognised_whole"] < 100 {
				return fmt.Errorf("too few recognised detections observed (truncated %d, whole %d)", a.Counters["recognised_truncated"], a.Counters["recognised_whole"])
			}
			return nil
		},
	})
}
