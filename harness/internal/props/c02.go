package props

import (
	"bytes"
	stdjson "encoding/json"
	"errors"
	"fmt"
	"io"
	"math/rand"
	"mime"
	"os"
	"path/filepath"
	"strings"

	"github.com/gabriel-vasile/mimetype"

	"verifharness/internal/fw"
	"verifharness/internal/gen"
	"verifharness/internal/lib"
)

// C02 — the result is always a valid, registered MIME value with a rooted
// hierarchy. The invariant itself is lib.Validator (written from the statement);
// this file drives it with hostile charset labels, every entry point, failing
// readers / files, and a broad sample of all other input families.

var errC02 = errors.New("verif: injected failure")

type c02Reader struct {
	b       []byte
	pos     int
	failAt  int // -1: never
	seeker  bool
	seekErr bool
	errCls  int  // index into c02Errs
	errWith bool // the error is returned together with the last bytes before failAt
}

// c02Errs: error values of a failing reader. "An error is returned => the value is
// exactly application/octet-stream" holds for whatever error the library decides
// to return, so the list includes the end-of-input look-alikes a real source can
// produce itself (a truncated gzip stream returns io.ErrUnexpectedEOF).
var c02Errs = append([]error{errC02, io.ErrUnexpectedEOF, fmt.Errorf("gzip: %w", io.ErrUnexpectedEOF), fmt.Errorf("body: %w", io.EOF), io.ErrShortWrite}, errClasses[1:]...)

func (r *c02Reader) Read(p []byte) (int, error) {
	if len(p) == 0 {
		return 0, nil
	}
	if r.failAt >= 0 && r.pos >= r.failAt {
		return 0, c02Errs[r.errCls%len(c02Errs)]
	}
	if r.pos >= len(r.b) {
		return 0, io.EOF
	}
	n := len(p)
	if n > 7 {
		n = 7
	}
	if n > len(r.b)-r.pos {
		n = len(r.b) - r.pos
	}
	if r.failAt >= 0 && r.pos+n > r.failAt {
		n = r.failAt - r.pos
	}
	copy(p, r.b[r.pos:r.pos+n])
	r.pos += n
	if r.errWith && r.failAt >= 0 && r.pos == r.failAt && n > 0 {
		return n, c02Errs[r.errCls%len(c02Errs)]
	}
	return n, nil
}

// c02SeekReader additionally implements io.Seeker (failing or not).
type c02SeekReader struct{ c02Reader }

func (r *c02SeekReader) Seek(off int64, whence int) (int64, error) {
	if r.seekErr {
		return 0, errC02
	}
	if whence == io.SeekStart {
		r.pos = int(off)
	}
	return int64(r.pos), nil
}

type c02Case struct {
	Kind    string `json:"kind"`
	In      []byte `json:"in"`
	Limit   uint32 `json:"limit"`
	Entry   string `json:"entry"` // Detect, DetectReader, DetectReaderFail, DetectReaderSeekFail, DetectFile, DetectFileMissing, DetectFileDir
	FailAt  int    `json:"fail_at"`
	ErrCls  int    `json:"err_class"`
	ErrWith bool   `json:"err_with_data"`
	InQ     string `json:"in_quoted"`
}

func c02Judge(c *fw.Ctx, k c02Case) {
	key := fw.InputKey(k.In, k.Limit, fmt.Sprintf("%s/%d/errclass=%d/%v", k.Entry, k.FailAt, k.ErrCls, k.ErrWith))
	k.InQ = ""
	c.Trace(func() (string, any) { k2 := k; k2.InQ = fw.Quote(k.In, 120); return key, k2 })
	var m *mimetype.MIME
	var err error
	ok := c.Guard(key, func() any { k2 := k; k2.InQ = fw.Quote(k.In, 120); return k2 }, func() {
		mimetype.SetLimit(k.Limit)
		switch k.Entry {
		case "Detect":
			m = mimetype.Detect(k.In)
		case "DetectReader":
			m, err = mimetype.DetectReader(&c02Reader{b: k.In, failAt: -1})
		case "DetectReaderFail":
			m, err = mimetype.DetectReader(&c02Reader{b: k.In, failAt: k.FailAt, errCls: k.ErrCls, errWith: k.ErrWith})
		case "DetectReaderSeekOK":
			m, err = mimetype.DetectReader(&c02SeekReader{c02Reader{b: k.In, failAt: -1}})
		case "DetectReaderSeekFail":
			m, err = mimetype.DetectReader(&c02SeekReader{c02Reader{b: k.In, failAt: -1, seekErr: true}})
		case "DetectFile":
			f := filepath.Join(os.TempDir(), fmt.Sprintf("verif-c02-%d.bin", os.Getpid()))
			if werr := os.WriteFile(f, k.In, 0o600); werr != nil {
				panic("verif harness: cannot write temp file: " + werr.Error())
			}
			m, err = mimetype.DetectFile(f)
			os.Remove(f)
		case "DetectFileMissing":
			m, err = mimetype.DetectFile(filepath.Join(os.TempDir(), "verif-c02-does-not-exist", "x"))
		case "DetectFileDir":
			m, err = mimetype.DetectFile(os.TempDir())
		}
	})
	c.Eval(1)
	if !ok {
		return
	}
	c.Count("entry_"+k.Entry, 1)
	if err != nil {
		c.Count("results_with_error", 1)
	}
	if why := validator().Check(m, err); why != "" {
		k.InQ = fw.Quote(k.In, 160)
		c.Violate("invalid-result", key, fmt.Sprintf("%s; entry %s limit %d input %s", why, k.Entry, k.Limit, k.InQ), k)
		return
	}
	s := m.String()
	if strings.Contains(s, "charset") {
		_, params, _ := mime.ParseMediaType(s)
		cs := params["charset"]
		special := strings.ContainsAny(s, "\"*")
		if special {
			c.Count("results_with_quoted_or_rfc2231_charset", 1)
			cls := "quoted"
			if strings.Contains(s, "*=") {
				cls = "rfc2231"
			}
			c.Distinct(fmt.Sprintf("%s|%s|%s|%s", lib.Base(s), cls, byteClassSig(cs), k.Kind))
			if c.WantSample() && c.Rand.Intn(2000) == 0 {
				c.Sample(map[string]any{"input": fw.Quote(k.In, 140), "entry": k.Entry, "limit": k.Limit, "result_string": s, "parsed_charset": cs})
			}
		} else {
			c.Count("results_with_plain_charset", 1)
		}
	}
	if err != nil {
		c.Distinct(fmt.Sprintf("err|%s|%d|%d", k.Entry, minInt(k.FailAt, 5), k.ErrCls))
		c.SetAdd("error_values_returned", fmt.Sprintf("%T", err))
	}
}

// byteClassSig summarises which byte classes occur in a label.
func byteClassSig(s string) string {
	var f [8]bool
	for i := 0; i < len(s); i++ {
		b := s[i]
		switch {
		case b < 0x20:
			f[0] = true
		case b == ' ':
			f[1] = true
		case b == '"' || b == '\\':
			f[2] = true
		case strings.IndexByte("()<>@,;:/[]?=", b) >= 0:
			f[3] = true
		case b == 0x7F:
			f[4] = true
		case b >= 0x80:
			f[5] = true
		case strings.IndexByte("*'%", b) >= 0:
			f[6] = true
		default:
			f[7] = true
		}
	}
	var sb strings.Builder
	for i, v := range f {
		if v {
			sb.WriteByte("csqtdhpa"[i])
		}
	}
	if len(s) > 64 {
		sb.WriteString("L")
	}
	return sb.String()
}

var c02Hostile = []string{"٨", "utf-٨", "iso-8859-１", "²", "Ⅷ", "ж", "ñ", "a\u0301", "\u200d", "\ufeff", "𝟘", "x\u00adx", "ＵＴＦ-８", "\u202e", "\"", "'", ";", ",", "=", "\\", "/", "(", ")", "<", ">", "@", ":", "[", "]", "?", "{", "}", "%", "*", " ", "\t", "\r", "\n", "\x0c", "\x7f", "\x80", "\xff", "\xc3", "\xc3\xa9", "\xe2\x82", "é", "日本", " ", "&quot;", "&#34;", "&amp;", "&#x3b;", "%22", "utf-8", "x"}

func c02Label(r *rand.Rand) string {
	switch r.Intn(6) {
	case 0:
		return string([]byte{byte(0x09 + r.Intn(0xF7))})
	case 1:
		return c02Hostile[r.Intn(len(c02Hostile))] + c02Hostile[r.Intn(len(c02Hostile))]
	case 2:
		n := 1 + r.Intn(6)
		var sb strings.Builder
		for i := 0; i < n; i++ {
			sb.WriteString(c02Hostile[r.Intn(len(c02Hostile))])
		}
		return sb.String()
	case 3:
		return ""
	case 4:
		return strings.Repeat(c02Hostile[r.Intn(len(c02Hostile))], 50+r.Intn(2000))
	default:
		return "utf-8" + c02Hostile[r.Intn(len(c02Hostile))] + "gbk"
	}
}

func c02Doc(r *rand.Rand, label string) ([]byte, string) {
	syn := r.Intn(9)
	var s string
	switch syn {
	case 0:
		s = "<html><meta charset=" + label + ">"
	case 1:
		s = "<html><head><meta charset=\"" + label + "\"></head>"
	case 2:
		s = "<!DOCTYPE html><meta charset='" + label + "'/>"
	case 3:
		s = "<html><meta http-equiv=\"Content-Type\" content=\"text/html; charset=" + label + "\">"
	case 4:
		s = "<html><meta content='text/html;charset=\"" + label + "\"' http-equiv=content-type>"
	case 5:
		s = "<html><meta http-equiv=content-type content=\"text/html; charset='" + label + "'\">"
	case 6:
		s = "<?xml version=\"1.0\" encoding=\"" + label + "\"?><doc/>"
	case 7:
		s = "<?xml version='1.0' encoding='" + label + "'?><doc/>"
	default:
		s = "\xEF\xBB\xBF<html><meta charset=\"" + label + "\">"
	}
	return []byte(s), fmt.Sprintf("syntax-%d", syn)
}

func c02Run(c *fw.Ctx, b fw.Batch) {
	r := c.Rand
	entries := []string{"Detect", "Detect", "Detect", "DetectReader", "DetectReaderSeekOK", "DetectReaderSeekFail"}
	switch b.Kind {
	case "labels":
		// single bytes x every syntax, then random hostile labels
		if b.Idx == 0 {
			for v := 0x09; v <= 0xFF; v++ {
				for syn := 0; syn < 40; syn++ {
					d, kind := c02Doc(r, "a"+string([]byte{byte(v)})+"b")
					c02Judge(c, c02Case{Kind: kind, In: d, Limit: 0, Entry: entries[syn%len(entries)]})
					d2, kind2 := c02Doc(r, string([]byte{byte(v)}))
					c02Judge(c, c02Case{Kind: kind2, In: d2, Limit: 3072, Entry: "Detect"})
				}
			}
		}
		for i := 0; i < b.N; i++ {
			d, kind := c02Doc(r, c02Label(r))
			lim := []uint32{0, 3072, uint32(len(d)), uint32(1 + r.Intn(len(d)+1))}[r.Intn(4)]
			c02Judge(c, c02Case{Kind: kind, In: d, Limit: lim, Entry: entries[r.Intn(len(entries))]})
		}
	case "registry":
		// Detection results are clones of the registered formats, so a format the library
		// registers under a name that does not parse, carries a parameter, or is not the
		// parsed form of itself is returned as it stands for whatever input it accepts.
		// Invariant of the live tree (snapshot hook), plus every source literal as an input.
		t := baseTree()
		for _, n := range t.Nodes {
			c.Eval(1)
			c.Count("registered_formats_inspected", 1)
			mt, params, err := mime.ParseMediaType(n.MIME)
			why := ""
			switch {
			case err != nil:
				why = fmt.Sprintf("registered name %q is not accepted by mime.ParseMediaType (%v)", n.MIME, err)
			case len(params) > 0:
				why = fmt.Sprintf("registered name %q carries the parameter(s) %v; every result of this format has a parameter other than charset", n.MIME, params)
			case n.Parent < 0 && mt != "application/octet-stream":
				why = fmt.Sprintf("the root of the tree is %q, not application/octet-stream", n.MIME)
			}
			if why != "" {
				c.Violate("invalid-result", "registered format "+n.MIME+"|"+n.Ext, why+" (invariant of the registered tree: detection returns clones of these nodes)", c02Case{Kind: "registry", In: []byte(n.MIME), Entry: "registry"})
			}
			c.Distinct("registry|" + lib.Base(n.MIME))
		}
		for _, lit := range lib.SourceDictionary() {
			if len(lit) == 0 || len(lit) > 200 {
				continue
			}
			c02Judge(c, c02Case{Kind: "dictionary", In: lit, Limit: 0, Entry: "Detect"})
			c02Judge(c, c02Case{Kind: "dictionary", In: append(append([]byte{}, lit...), make([]byte, 600)...), Limit: 3072, Entry: "DetectReader"})
		}
	case "errors":
		seeds := lib.Seeds()
		for i := 0; i < b.N; i++ {
			s := seeds[r.Intn(len(seeds))]
			if len(s) > 2000 {
				s = s[:2000]
			}
			if r.Intn(3) == 0 {
				s, _ = c02Doc(r, c02Label(r))
			}
			lim := []uint32{0, 3072, uint32(len(s) + 1), uint32(1 + r.Intn(len(s)+2))}[r.Intn(4)]
			hdr := len(lib.Header(s, lim))
			failAt := r.Intn(hdr + 1)
			c02Judge(c, c02Case{Kind: "reader-fails", In: s, Limit: lim, Entry: "DetectReaderFail", FailAt: failAt})
			// the same with every class of error value (incl. end-of-input look-alikes of the source itself)
			c02Judge(c, c02Case{Kind: "reader-fails-class", In: s, Limit: lim, Entry: "DetectReaderFail", FailAt: failAt, ErrCls: 1 + r.Intn(len(c02Errs)-1), ErrWith: r.Intn(2) == 0})
			if i%50 == 0 {
				c02Judge(c, c02Case{Kind: "file", In: s, Limit: lim, Entry: "DetectFile"})
				c02Judge(c, c02Case{Kind: "file-missing", Limit: lim, Entry: "DetectFileMissing"})
				c02Judge(c, c02Case{Kind: "file-dir", Limit: lim, Entry: "DetectFileDir"})
			}
			c02Judge(c, c02Case{Kind: "seek-fails", In: s, Limit: lim, Entry: "DetectReaderSeekFail"})
		}
	case "strace":
		// DetectFile on one fixed file while strace injects a fault into close(2) (b.Idx 0)
		// or into the k-th read(2) (b.Idx k) of exactly that file
		target := os.Getenv("VERIF_STRACE_FILE")
		if target == "" {
			panic("verif harness: VERIF_STRACE_FILE not set")
		}
		for i := 0; i < 5; i++ {
			for _, lim := range []uint32{3072, 0, 64} {
				var m *mimetype.MIME
				var err error
				key := fmt.Sprintf("DetectFile under strace fault injection idx=%d limit=%d", b.Idx, lim)
				pl := c02Case{Kind: "strace-fault", Limit: lim, Entry: "DetectFile", FailAt: b.Idx}
				c.Trace(func() (string, any) { return key, pl })
				if !c.Guard(key, func() any { return pl }, func() {
					mimetype.SetLimit(lim)
					m, err = mimetype.DetectFile(target)
				}) {
					continue
				}
				c.Eval(1)
				if err != nil {
					c.Count("strace_injected_faults_surfaced_as_error", 1)
				} else {
					c.Count("strace_runs_without_error", 1)
				}
				c.SetAdd("strace_outcomes", fmt.Sprintf("fault=%d limit=%d -> %s err=%v", b.Idx, lim, m.String(), err))
				if why := validator().Check(m, err); why != "" {
					c.Violate("invalid-result", key, why+" (kernel-level fault injected with strace)", pl)
				}
				c.Distinct(fmt.Sprintf("strace|%d|%d|%v", b.Idx, lim, err != nil))
			}
		}
	case "extended":
		// the invariant on trees enlarged by Extend below the deepest built-in formats
		base := baseTree()
		for h := 0; h < b.N; h++ {
			mimetype.VerifResetTree()
			parents := []string{"application/geo+json", "application/rss+xml", "application/vnd.oasis.opendocument.text-template", "model/gltf+json", "application/atom+xml", "audio/ogg", "application/x-sharedlib", "", "text/plain"}
			var probes [][]byte
			inputs := map[string][]byte{
				"application/geo+json": []byte(`{"type":"Feature","verif":1}`), "application/rss+xml": []byte(`<?xml version="1.0"?><rss verif="1">`),
				"application/vnd.oasis.opendocument.text-template": []byte("PK\x03\x04" + string(make([]byte, 26)) + "mimetypeapplication/vnd.oasis.opendocument.text-templatePK"),
				"model/gltf+json": []byte(`{"asset":{"version":"2.0"}}`), "application/atom+xml": []byte(`<?xml version="1.0"?><feed xmlns="http://www.w3.org/2005/Atom">`),
				"audio/ogg": []byte("OggS\x00\x02" + string(make([]byte, 22)) + "\x01vorbis\x00\x00"), "application/x-sharedlib": []byte("\x7FELF\x02\x01\x01\x00\x00\x00\x00\x00\x00\x00\x00\x00\x03\x00\x3e\x00"),
				"": []byte("VERIF root"), "text/plain": []byte("VERIF text"),
			}
			depth := 1 + r.Intn(3)
			for _, pn := range parents {
				cur := pn
				for d := 0; d < depth; d++ {
					extCounter++
					name := fmt.Sprintf("application/x-verif-c02-%d", extCounter)
					want := inputs[pn]
					det := func(raw []byte, _ uint32) bool { return bytes.Equal(raw, want) }
					if cur == "" {
						mimetype.Extend(det, name, ".c2")
					} else {
						mimetype.Lookup(cur).Extend(det, name, ".c2")
					}
					cur = name
				}
				probes = append(probes, inputs[pn])
			}
			_ = base
			v := lib.NewValidator(lib.Snapshot())
			for _, x := range probes {
				for _, entry := range []string{"Detect", "DetectReader"} {
					var m *mimetype.MIME
					var err error
					pl := c02Case{Kind: "extended-tree", In: x, Limit: 3072, Entry: entry}
					key := fw.InputKey(x, 3072, entry+"/extended")
					c.Trace(func() (string, any) { return key, pl })
					if !c.Guard(key, func() any { return pl }, func() { m, err = detect(x, 3072, entry) }) {
						continue
					}
					c.Eval(1)
					c.Count("results_on_extended_trees", 1)
					if why := v.Check(m, err); why != "" {
						c.Violate("invalid-result", key, fmt.Sprintf("%s; on a tree with %d-deep extensions below the built-in leaves; input %s; hierarchy %s", why, depth, fw.Quote(x, 60), lib.ChainOf(m)), pl)
					}
					c.Max("deepest_result_hierarchy", int64(len(lib.ChainOf(m))))
				}
			}
		}
		// Extend called on a value RETURNED BY DETECTION (a text result that carries a charset
		// parameter): whatever the library makes of it, later results must stay valid
		mimetype.VerifResetTree()
		for _, sc := range [][2]string{
			{"<html><head><meta charset=\"koi8-r\"></head><body>first", "<html><body>VERIF-ONRESULT"},
			{"plain caf\xe9 text", "VERIF-ONRESULT plain text"},
			{"<?xml version=\"1.0\" encoding=\"iso-8859-5\"?><a/>", "<?xml version=\"1.0\"?><verif-onresult/>"},
		} {
			res := lib.Detect([]byte(sc[0]), 3072)
			probe := []byte(sc[1])
			extCounter++
			res.Extend(func(raw []byte, _ uint32) bool {
				return bytes.Contains(raw, []byte("VERIF-ONRESULT")) || bytes.Contains(raw, []byte("verif-onresult"))
			}, fmt.Sprintf("application/x-verif-c02-onresult-%d", extCounter), ".c2r")
			if p := res.Parent(); p != nil {
				extCounter++
				p.Extend(func(raw []byte, _ uint32) bool { return bytes.Contains(raw, []byte("VERIF-ONRESULT-PARENT")) }, fmt.Sprintf("application/x-verif-c02-onresult-%d", extCounter), ".c2r")
			}
			v := lib.NewValidator(lib.Snapshot())
			for _, x := range [][]byte{probe, append([]byte("VERIF-ONRESULT-PARENT "), probe...), []byte(sc[0])} {
				for _, entry := range []string{"Detect", "DetectReader"} {
					var m *mimetype.MIME
					var err error
					pl := c02Case{Kind: "extend-on-result", In: x, Limit: 3072, Entry: entry}
					key := fw.InputKey(x, 3072, entry+"/extend-on-result")
					c.Trace(func() (string, any) { return key, pl })
					if !c.Guard(key, func() any { return pl }, func() { m, err = detect(x, 3072, entry) }) {
						continue
					}
					c.Eval(1)
					c.Count("results_after_extend_on_a_detection_result", 1)
					if why := v.Check(m, err); why != "" {
						c.Violate("invalid-result", key, fmt.Sprintf("%s; after Extend was called on a detection result (%s); input %s; hierarchy %s", why, lib.ChainOf(res), fw.Quote(x, 60), lib.ChainOf(m)), pl)
					}
				}
			}
		}
		mimetype.VerifResetTree()
	case "broad":
		// the invariant over a broad sample of every other input family
		seeds := lib.Seeds()
		lo, hi := split(len(seeds), b.Idx, b.Of)
		for _, s := range seeds[lo:hi] {
			if len(s) > 3000 {
				s = s[:3000]
			}
			step := 1
			if len(s) > 300 {
				step = 7
			}
			for n := 0; n <= len(s); n += step {
				c02Judge(c, c02Case{Kind: "seed-prefix", In: s[:n], Limit: 0, Entry: "Detect"})
			}
			for _, l := range []uint32{1, 2, 8, 64, 3072, uint32(len(s))} {
				c02Judge(c, c02Case{Kind: "seed-limit", In: s, Limit: l, Entry: entries[r.Intn(len(entries))]})
			}
			for k := 0; k < 60 && len(s) > 0; k++ {
				x := append([]byte{}, s...)
				for j := r.Intn(4); j >= 0; j-- {
					x[r.Intn(len(x))] = byte(r.Intn(256))
				}
				c02Judge(c, c02Case{Kind: "seed-mutant", In: x, Limit: uint32(r.Intn(len(x) + 2)), Entry: "Detect"})
			}
		}
		for i := 0; i < b.N; i++ {
			o := gen.JSONOpts{MaxDepth: 3, MaxItems: 4, WS: r.Intn(3), Hostile: true}
			d := gen.JSONDoc(r, o)
			c02Judge(c, c02Case{Kind: "json", In: d, Limit: uint32(r.Intn(len(d) + 2)), Entry: "Detect"})
			h := c12HTML(r, false)
			c02Judge(c, c02Case{Kind: "html-decl", In: h.data, Limit: uint32(r.Intn(len(h.data) + 2)), Entry: "Detect"})
			x := c12XML(r)
			c02Judge(c, c02Case{Kind: "xml-decl", In: x.data, Limit: 0, Entry: "DetectReader"})
			t := c13MakeTable(r, ',', 3, 3, false, true, true, 0, false)
			c02Judge(c, c02Case{Kind: "csv", In: t.data, Limit: uint32(r.Intn(len(t.data) + 2)), Entry: "Detect"})
			txt := []byte(c11Texts[r.Intn(len(c11Texts))])
			c02Judge(c, c02Case{Kind: "text", In: txt, Limit: uint32(1 + r.Intn(len(txt))), Entry: "Detect"})
		}
	}
}

func init() {
	fw.Register(&fw.Prop{
		ID:    "C02",
		Level: "exploration",
		Rule: "labels = every single byte 0x09-0xFF (bare and embedded), pairs and runs over a hostile alphabet (quotes, ; , = \\ / ( ) < > @ : [ ] ? { } % * ', space, TAB, CR, LF, FF, DEL, invalid UTF-8, non-ASCII, character references), empty and very long labels, spliced into 9 declaration syntaxes (meta charset unquoted/quoted, http-equiv pragmas, XML prologues, BOM + meta); entry points Detect, DetectReader (plain reader, reader implementing a working or failing io.Seeker), DetectFile; injected read errors at every offset class; missing file and directory; DetectFile while strace injects EIO into close(2) or into the k-th read(2) of the file (real kernel-level faults); trees enlarged by 1-3 levels of extensions below the deepest built-in formats; the registered tree itself (every built-in format's name must parse, carry no parameter; the root is application/octet-stream: results are clones of these nodes) and every literal of the tree's source as an input; plus the invariant over all seeds at every prefix length, seed mutants, generated JSON / HTML / XML / CSV / text. Every returned (value, error) is judged by the invariant: String() parses, type registered, only charset on text/plain|html|xml, finite parameter-free registered ancestors ending at application/octet-stream, error => exactly application/octet-stream. " +
			"non-trivial = the result carries a charset parameter that needed quoting or RFC 2231 encoding, or came with an error; distinct = distinct (bare type, quoted/rfc2231, byte-class signature of the parsed charset, syntax) and (entry, fail offset class).",
		Assumptions: []string{
			"mime.ParseMediaType is the definition of a valid media type string",
			"registered formats = the names in the verif snapshot of the tree",
		},
		Plan: func(tier string, seed int64) []fw.Batch {
			nl, ne, nb := 300000, 80000, 20000
			if tier == "thorough" {
				nl, ne, nb = 4000000, 1000000, 300000
			}
			var bs []fw.Batch
			bs = append(bs, batches("labels", 8, nl, 1800)...)
			bs = append(bs, batches("errors", 2, ne, 1800)...)
			bs = append(bs, batches("registry", 1, 0, 1800)...)
			bs = append(bs, batches("broad", 6, nb, 1800)...)
			bs = append(bs, batches("extended", 1, 200, 1800)...)
			// kernel-level faults on DetectFile: strace injects EIO into close(2) / the k-th read(2) of one file
			target := filepath.Join(lib.Root(), "out", "C02", "strace-target.html")
			os.MkdirAll(filepath.Dir(target), 0o755)
			os.WriteFile(target, []byte("<html><head><meta charset=\"koi8-r\"></head><body>"+strings.Repeat("<p>text</p>", 600)+"</body></html>"), 0o644)
			for k := 0; k <= 2; k++ {
				inj := "inject=close:error=EIO"
				if k > 0 {
					inj = fmt.Sprintf("inject=read:error=EIO:when=%d+", k)
				}
				bs = append(bs, fw.Batch{Name: fmt.Sprintf("strace-fault-%d", k), Kind: "strace", Idx: k, TimeoutS: 600,
					Env:    []string{"VERIF_STRACE_FILE=" + target},
					Strace: []string{"-f", "-o", "/dev/null", "-e", "trace=read,close", "-e", inj, "-P", target}})
			}
			return bs
		},
		Run: c02Run,
		Replay: func(c *fw.Ctx, payload stdjson.RawMessage) {
			var k c02Case
			if err := stdjson.Unmarshal(payload, &k); err != nil {
				fmt.Println("bad payload:", err)
				return
			}
			if k.Entry == "registry" {
				c02Run(c, fw.Batch{Kind: "registry"})
				return
			}
			c02Judge(c, k)
		},
		Finish: func(a *fw.Agg) error {
			if a.Maxes["deepest_result_hierarchy"] < 6 {
				return fmt.Errorf("extended-tree batch never produced a hierarchy deeper than the built-in tree (max %d)", a.Maxes["deepest_result_hierarchy"])
			}
			if a.Counters["results_with_quoted_or_rfc2231_charset"] < 1000 || a.Counters["results_with_error"] < 1000 {
				return fmt.Errorf("too few informative results (quoted/rfc2231 %d, with error %d)", a.Counters["results_with_quoted_or_rfc2231_charset"], a.Counters["results_with_error"])
			}
			return nil
		},
	})
}
