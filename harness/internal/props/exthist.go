package props

import (
	"bytes"
	"fmt"
	"math/rand"
	"strings"

	"github.com/gabriel-vasile/mimetype"

	"verifharness/internal/lib"
)

// Extend histories shared by C03, C14 (and used by C06 for its probe formats).
// A history is a list of serialisable operations so that a violation can be
// replayed from its payload alone.

type predSpec struct {
	Kind string `json:"kind"` // true,false,prefix,contains,lengt,limitgt,limiteq,builtin,empty
	Arg  []byte `json:"arg,omitempty"`
	N    int    `json:"n,omitempty"`
	Name string `json:"name,omitempty"` // builtin: mime|ext of the built-in detector to reuse
}

func (p predSpec) fn(base *lib.Tree) func([]byte, uint32) bool {
	switch p.Kind {
	case "true":
		return func([]byte, uint32) bool { return true }
	case "false":
		return func([]byte, uint32) bool { return false }
	case "prefix":
		a := p.Arg
		return func(raw []byte, _ uint32) bool { return bytes.HasPrefix(raw, a) }
	case "contains":
		a := p.Arg
		return func(raw []byte, _ uint32) bool { return bytes.Contains(raw, a) }
	case "lengt":
		n := p.N
		return func(raw []byte, _ uint32) bool { return len(raw) > n }
	case "limitgt":
		n := uint32(p.N)
		return func(_ []byte, l uint32) bool { return l > n }
	case "limiteq":
		n := uint32(p.N)
		return func(_ []byte, l uint32) bool { return l == n }
	case "empty":
		return func(raw []byte, _ uint32) bool { return len(raw) == 0 }
	case "builtin":
		for _, n := range base.Nodes {
			if n.MIME+"|"+n.Ext == p.Name {
				return n.Det
			}
		}
		return func([]byte, uint32) bool { return false }
	}
	return func([]byte, uint32) bool { return false }
}

type extOp struct {
	Parent  string   `json:"parent"` // "" = package-level Extend (root); else the name passed to Lookup
	Pred    predSpec `json:"pred"`
	MIME    string   `json:"mime"`
	Ext     string   `json:"ext"`
	Aliases []string `json:"aliases"`
}

// applyOp registers the extension in the library and mirrors it in the model.
// It returns the model id of the new node.
func applyOp(op extOp, model *lib.Tree, base *lib.Tree) int {
	return applyOpList(op, op.Aliases, model, base)
}

// applyOpList hands libList (the caller's slice, possibly shared between several calls) to the
// library and mirrors the operation in the model with op.Aliases, which the library never sees.
func applyOpList(op extOp, libList []string, model *lib.Tree, base *lib.Tree) int {
	det := op.Pred.fn(base)
	var pid int
	al := append([]string(nil), op.Aliases...) // the model keeps its own copy
	if op.Parent == "" {
		mimetype.Extend(det, op.MIME, op.Ext, libList...)
		pid = 0
	} else {
		lk := mimetype.Lookup(op.Parent)
		if lk == nil {
			// the library lost a registered name: reported by the caller, not a harness bug
			panic(lostName{op.Parent})
		}
		lk.Extend(det, op.MIME, op.Ext, libList...)
		pid = model.Lookup(op.Parent)
		if pid < 0 {
			panic("verif harness: model has no node " + op.Parent)
		}
	}
	return model.AddExt(pid, op.MIME, op.Ext, al, det)
}

// lostName is the panic value used when Lookup of a registered name returns nil.
type lostName struct{ name string }

var extCounter int

// genHistory draws a random history of k operations. Names are unique within
// the process (a counter), attach points are the root, built-ins at any depth
// and earlier extensions of the same history.
func genHistory(r *rand.Rand, base *lib.Tree, k int, seeds [][]byte, upperNames bool) []extOp {
	var ops []extOp
	var mine []string
	for e := 0; e < k; e++ {
		var op extOp
		switch r.Intn(5) {
		case 0:
			op.Parent = ""
		case 1, 2:
			n := base.Nodes[r.Intn(len(base.Nodes))]
			op.Parent = n.MIME
			if len(n.Aliases) > 0 && r.Intn(3) == 0 {
				op.Parent = n.Aliases[r.Intn(len(n.Aliases))]
			}
		case 3:
			op.Parent = []string{"text/plain", "application/zip", "application/json", "text/xml", "video/mp4", "application/x-ole-storage", "application/vnd.oasis.opendocument.text", "image/png", "application/x-elf"}[r.Intn(9)]
		default:
			if len(mine) > 0 {
				op.Parent = mine[r.Intn(len(mine))]
			}
		}
		switch r.Intn(10) {
		case 0:
			op.Pred = predSpec{Kind: "true"}
		case 1:
			op.Pred = predSpec{Kind: "false"}
		case 2, 3:
			s := seeds[r.Intn(len(seeds))]
			n := 1 + r.Intn(4)
			if len(s) < n {
				op.Pred = predSpec{Kind: "empty"}
			} else {
				op.Pred = predSpec{Kind: "prefix", Arg: append([]byte{}, s[:n]...)}
			}
		case 4:
			op.Pred = predSpec{Kind: "contains", Arg: []byte{byte(r.Intn(256))}}
		case 5:
			op.Pred = predSpec{Kind: "lengt", N: r.Intn(40)}
		case 6:
			op.Pred = predSpec{Kind: "limitgt", N: r.Intn(4000)}
		case 7:
			n := base.Nodes[1+r.Intn(len(base.Nodes)-1)]
			op.Pred = predSpec{Kind: "builtin", Name: n.MIME + "|" + n.Ext}
		case 8:
			op.Pred = predSpec{Kind: "empty"}
		default:
			op.Pred = predSpec{Kind: "prefix", Arg: []byte("VERIF")}
		}
		extCounter++
		op.MIME = fmt.Sprintf("application/x-verif-%d", extCounter)
		if upperNames && r.Intn(4) == 0 {
			op.MIME = fmt.Sprintf("application/X-Verif-UP-%d", extCounter)
		}
		if r.Intn(12) == 0 {
			// the name of a built-in format is used for a new format somewhere else in the tree
			bi := [][2]string{{"text/xml", ".xml"}, {"application/json", ".json"}, {"application/zip", ".zip"}, {"text/plain", ".txt"}, {"application/octet-stream", ""}, {"video/quicktime", ".mov"}, {"image/png", ".png"}, {"application/pdf", ".pdf"}}[r.Intn(8)]
			op.MIME = bi[0]
			if r.Intn(2) == 0 {
				op.Ext = bi[1]
				if r.Intn(2) == 0 { // next to the built-in of that name and extension
					for _, n := range base.Nodes {
						if n.MIME == bi[0] && n.Ext == bi[1] && n.Parent >= 0 {
							op.Parent = base.Nodes[n.Parent].MIME
							if n.Parent == 0 {
								op.Parent = ""
							}
						}
					}
				}
			}
		}
		if upperNames && len(ops) > 0 && r.Intn(6) == 0 {
			// a name registered before in this history is used again (same or another
			// parent, another detector / extension): still a NEW format in front of its siblings
			prev := ops[r.Intn(len(ops))]
			op.MIME = prev.MIME
			if r.Intn(2) == 0 {
				op.Parent = prev.Parent
			}
			if r.Intn(2) == 0 {
				op.Ext = prev.Ext // same name AND same extension: still a new format
			}
		}
		if op.Ext == "" && op.MIME != "application/octet-stream" {
			op.Ext = fmt.Sprintf(".v%d", extCounter%97)
		}
		na := r.Intn(3)
		if !strings.Contains(op.MIME, "erif") && na == 0 {
			na = 1 // a format that re-uses an existing name gets at least one alias of its own
		}
		for a := 0; a < na; a++ {
			op.Aliases = append(op.Aliases, fmt.Sprintf("application/x-verif-alias-%d-%d", extCounter, a))
		}
		mine = append(mine, op.MIME)
		// later operations may reach this format through one of its aliases (the only
		// unambiguous handle when its main name is shared with another format)
		mine = append(mine, op.Aliases...)
		ops = append(ops, op)
	}
	return ops
}

// extendOnResults calls Extend on values RETURNED BY DETECTION (and on their parents).
// Such values are detached copies: the registered tree, and therefore every other
// detection, must not change. The new sub-formats accept only a dedicated probe, so a
// library that chose to honour such a call would still leave every other input alone.
var onResultCounter int

func extendOnResults(r *rand.Rand, seeds [][]byte, k int) {
	for i := 0; i < k; i++ {
		s := seeds[r.Intn(len(seeds))]
		if len(s) > 4096 {
			s = s[:4096]
		}
		mimetype.SetLimit(3072)
		res := mimetype.Detect(s)
		target := res
		for up := r.Intn(3); up > 0 && target.Parent() != nil; up-- {
			target = target.Parent()
		}
		onResultCounter++
		target.Extend(func(raw []byte, _ uint32) bool { return bytes.HasPrefix(raw, []byte("VERIF-ONRESULT-PROBE")) },
			fmt.Sprintf("application/x-verif-onresult-%d", onResultCounter), ".vor")
	}
}
