package props

import (
	"bytes"
	"encoding/csv"
	stdjson "encoding/json"
	"fmt"
	"math/rand"
	"strings"
	"sync"

	"github.com/gabriel-vasile/mimetype"

	"verifharness/internal/fw"
	"verifharness/internal/gen"
	"verifharness/internal/lib"
	"verifharness/internal/oracle"
)

// C13 — line-oriented formats survive truncation and require well-formed lines.

// familyOrException: does the chain contain target (mime, ext)? If not, did it
// leave root -> text/plain -> target at a node of higher priority?
// Priority is PINNED from tree.go at the verified commit (the properties' anchors): the
// formats that may take precedence over text/plain at the root, and over each text
// format among text/plain's children. A format that is merely *moved* in front of the
// target in a changed tree is not an accepted exception.
var pinnedBeforeTar = []string{"image/x-xpixmap", "application/x-7z-compressed", "application/zip", "application/pdf", "application/vnd.fdf", "application/x-ole-storage", "application/postscript", "image/vnd.adobe.photoshop", "application/pkcs7-signature", "application/ogg", "image/png", "image/jpeg", "image/jxl", "image/jp2", "image/jpx", "image/jpm", "image/jxs", "image/gif", "image/webp", "application/vnd.microsoft.portable-executable", "application/x-elf", "application/x-archive"}
var pinnedTextOrder = []string{"text/html", "image/svg+xml", "text/xml", "text/x-php", "text/javascript", "text/x-lua", "text/x-perl", "text/x-python", "application/json", "application/x-ndjson", "text/rtf", "application/x-subrip", "text/x-tcl", "text/csv", "text/tab-separated-values", "text/vcard", "text/calendar", "application/warc", "text/vtt"}

// pinnedPrecedes reports whether text child a has priority over text child b at the pinned commit.
func pinnedPrecedes(a, b string) bool {
	ia, ib := -1, -1
	for i, n := range pinnedTextOrder {
		if n == a {
			ia = i
		}
		if n == b {
			ib = i
		}
	}
	return ia >= 0 && ib >= 0 && ia < ib
}

func familyOrException(t *lib.Tree, ch lib.Chain, mime, ext string) (string, string) {
	if ch.HasLink(mime, ext) {
		return "hit", ""
	}
	textID := t.Find("text/plain", ".txt")
	target := t.Find(mime, ext)
	path := t.PathOfChain(ch)
	if path == nil || len(path) < 2 {
		return "miss", "result is the bare root or not a path of the tree"
	}
	if path[1] != textID {
		if t.ChildIndex(path[1]) < t.ChildIndex(textID) {
			return "exception", t.Nodes[path[1]].MIME
		}
		return "miss", "diverged at a root child after text/plain"
	}
	if len(path) < 3 {
		return "miss", "stopped at text/plain"
	}
	if t.ChildIndex(path[2]) < t.ChildIndex(target) && pinnedPrecedes(t.Nodes[path[2]].MIME, mime) {
		return "exception", t.Nodes[path[2]].MIME
	}
	return "miss", "a text format without priority over " + mime + " (" + t.Nodes[path[2]].MIME + ") was reported"
}

type c13Table struct {
	data     []byte
	lineEnds []int  // offset just past each line's '\n' (or len for an unterminated last line)
	isRecord []bool // false for comment lines
	delim    byte
}

func c13Cell(r *rand.Rand, delim byte, allowQuoted bool) string {
	words := []string{"<b", "<p", "<table", "<?xml", "<html", "<a", "<!-", "%PDF", "PK", "5\" disk", "12\"", "say \"hi\"", " \"", " \"x", "a \"", " \" ", "a", "b", "id", "name", "x1", "42", "3.14", "-7", "hello world", "foo.bar", "2024-01-02", "N/A", "", "", " lead", "trail ", "é", "ü", "O'Neil", "100%", "a;b", "k=v"}
	if allowQuoted && r.Intn(6) == 0 {
		in := []string{"x" + string(delim) + "y", "he said \"\"hi\"\"", string(delim), "a" + string(delim) + string(delim) + "b", "plain"}[r.Intn(5)]
		return `"` + in + `"`
	}
	if r.Intn(5) == 0 {
		n := 1 + r.Intn(10)
		b := make([]byte, n)
		for i := range b {
			b[i] = "abcdefghijklmnopqrstuvwxyz0123456789"[r.Intn(36)]
		}
		return string(b)
	}
	return words[r.Intn(len(words))]
}

func c13MakeTable(r *rand.Rand, delim byte, rows, cols int, crlf, quoted, trailingNL bool, comments int, otherDelimInCells bool) c13Table {
	var t c13Table
	t.delim = delim
	var buf bytes.Buffer
	nl := "\n"
	if crlf {
		nl = "\r\n"
	}
	other := byte(',')
	if delim == ',' {
		other = '\t'
	}
	total := rows + comments
	commentAt := map[int]bool{}
	for len(commentAt) < comments {
		commentAt[r.Intn(total)] = true
	}
	for i := 0; i < total; i++ {
		if commentAt[i] {
			buf.WriteString("#" + []string{" comment", "c", " a" + string(delim) + "b" + string(delim) + "c" + string(delim) + "d", ""}[r.Intn(4)])
			t.isRecord = append(t.isRecord, false)
		} else {
			for j := 0; j < cols; j++ {
				if j > 0 {
					buf.WriteByte(delim)
				}
				cell := c13Cell(r, delim, quoted)
				if j == 0 {
					for cell == "" || cell[0] == '#' || cell[0] == ' ' {
						cell = c13Cell(r, delim, false)
					}
				}
				if j == 0 && len(cell) >= 4 {
					// a random [a-z0-9] cell at the start of a line must not spell a magic number of
					// another format by chance (drpm, icns, 070707, an ftyp brand at offset 4 …):
					// underscores at positions 1 and 5 leave no 4 adjacent random characters in front
					plain := true
					for k := 0; k < len(cell); k++ {
						if !(cell[k] >= 'a' && cell[k] <= 'z' || cell[k] >= '0' && cell[k] <= '9') {
							plain = false
						}
					}
					if plain {
						cell = cell[:1] + "_" + cell[1:4] + "_" + cell[4:]
					}
				}
				if otherDelimInCells && !strings.HasPrefix(cell, `"`) {
					cell += string(other) + "z"
				}
				buf.WriteString(cell)
			}
			t.isRecord = append(t.isRecord, true)
		}
		if i < total-1 || trailingNL {
			buf.WriteString(nl)
		}
		t.lineEnds = append(t.lineEnds, buf.Len())
	}
	t.data = buf.Bytes()
	return t
}

func c13Detect(c *fw.Ctx, kind string, d []byte, L uint32, note string) (lib.Chain, bool) {
	entry := pickEntry(c)
	key := fw.InputKey(d, L, entry)
	c.Trace(func() (string, any) { return key, fw.MkInCase(kind, d, L, entry, note) })
	var ch lib.Chain
	ok := c.Guard(key, func() any { return fw.MkInCase(kind, d, L, entry, "panic") }, func() {
		m := detectEntry(d, L, entry)
		anomalyC02(c, m, nil)
		ch = lib.ChainOf(m)
	})
	c.Eval(1)
	return ch, ok
}

var c13Names = map[byte][2]string{',': {"text/csv", ".csv"}, '\t': {"text/tab-separated-values", ".tsv"}, 'n': {"application/x-ndjson", ".ndjson"}}

// forward: every limit from just past the second record line's newline to
// len, plus whole mode, keeps the type.
func c13Forward(c *fw.Ctx, t *lib.Tree, kind string, d []byte, from int, which byte, relativeOnly bool, tag string) {
	nm := c13Names[which]
	lims := []uint32{0, uint32(len(d) + 1)}
	for L := from; L <= len(d); L++ {
		lims = append(lims, uint32(L))
	}
	wholeIs := true
	for i, L := range lims {
		ch, ok := c13Detect(c, kind, d, L, "expect "+nm[0])
		if !ok {
			continue
		}
		v, why := familyOrException(t, ch, nm[0], nm[1])
		if i == 0 && v != "hit" {
			wholeIs = false
		}
		truncated := L != 0 && int(L) <= len(d)
		switch v {
		case "hit":
			c.Count("forward_kept_"+nm[1], 1)
		case "exception":
			if ok, sig := c13ExceptionJustified(why, lib.Header(d, L)); !ok {
				c.Violate("line-format-lost", key13(d, L),
					fmt.Sprintf("%s expected %s, reported as the higher-priority format %s whose signature the examined bytes do not carry (%s); result %s; input %s", kind, nm[0], why, sig, ch, fw.Quote(d, 120)),
					fw.InCase{Kind: kind, In: d, Limit: L, Entry: "Detect", Aux: fmt.Sprintf("forward|%c|%d|%v", which, from, relativeOnly), InQ: fw.Quote(d, 120)})
				break
			}
			c.Count("exception_higher_priority_format", 1)
			c.SetAdd("exception_formats", why)
		default:
			if relativeOnly && (!wholeIs || !truncated) {
				c.Count("comment_tables_not_detected_whole_informational", 1)
				continue
			}
			mode := "whole file"
			if truncated {
				mode = fmt.Sprintf("cut at %d of %d", L, len(d))
			}
			c.Violate("line-format-lost", key13(d, L),
				fmt.Sprintf("%s (%s) expected %s, got %s: %s; input %s", kind, mode, nm[0], ch, why, fw.Quote(d, 120)),
				fw.InCase{Kind: kind, In: d, Limit: L, Entry: "Detect", Aux: fmt.Sprintf("forward|%c|%d|%v", which, from, relativeOnly), InQ: fw.Quote(d, 120)})
		}
		if truncated && int(L) < len(d) {
			// where does the cut fall relative to line structure?
			rel := "mid-line"
			switch {
			case d[L-1] == '\n':
				rel = "after-newline"
			case d[L-1] == '\r':
				rel = "inside-crlf"
			case d[L] == '\n' || d[L] == '\r':
				rel = "before-newline"
			case d[L-1] == '"' || d[L] == '"':
				rel = "at-quote"
			case d[L-1] == which || d[L] == which:
				rel = "at-delimiter"
			}
			c.Distinct(fmt.Sprintf("fwd|%s|%s|%c", tag, rel, which))
		}
	}
}

// c13ExceptionJustified: a table that is reported as another text format is the
// statement's exception only if its bytes carry that format's signature: text/csv for
// a tab-separated table whose lines are also a rectangular comma-separated table
// (decided with encoding/csv on the complete lines), otherwise the pinned signatures.
func c13ExceptionJustified(format string, h []byte) (bool, string) {
	if format == "text/csv" {
		rd := csv.NewReader(bytes.NewReader(h))
		rd.Comment = '#'
		rd.LazyQuotes = true
		rd.ReuseRecord = true
		n, rows := -1, 0
		for {
			rec, err := rd.Read()
			if err != nil {
				break
			}
			if n < 0 {
				n = len(rec)
			}
			rows++
		}
		return n >= 2 && rows >= 1, "a comma-separated reading of the same lines with at least two fields"
	}
	return exceptionJustified(format, h)
}

func key13(d []byte, L uint32) string { return fw.InputKey(d, L, "Detect") }

// c13NdjsonOracle implements the converse reading (weakest reasonable):
// at least two lines; every complete line blank or a complete JSON value; at
// least one line begins an object or array.
func c13NdjsonOracle(h []byte, truncated bool) (ok bool, why string) {
	parts := bytes.Split(h, []byte("\n"))
	endsNL := len(h) > 0 && h[len(h)-1] == '\n'
	if endsNL {
		parts = parts[:len(parts)-1]
	}
	if len(parts) < 2 {
		return false, "fewer than two lines"
	}
	objOrArr := 0
	for i, l := range parts {
		complete := true
		if i == len(parts)-1 && !endsNL && truncated {
			complete = false
		}
		if len(l) > 0 && l[len(l)-1] == '\r' {
			l = l[:len(l)-1]
		}
		if oracle.FirstIsContainer(l) {
			objOrArr++
		}
		if !complete {
			continue
		}
		if len(bytes.Trim(l, " \t\r")) == 0 { // blank = JSON white space only (not Unicode spaces, FF, VT)
			continue
		}
		if oracle.Value(l) != oracle.Complete {
			return false, fmt.Sprintf("complete line %d %q is neither blank nor a complete JSON value", i+1, l)
		}
	}
	if objOrArr == 0 {
		return false, "no line holds an object or array"
	}
	return true, ""
}

func c13ConverseNdjson(c *fw.Ctx, kind string, d []byte, lims []uint32) {
	for _, L := range lims {
		ch, ok := c13Detect(c, kind, d, L, "converse ndjson")
		if !ok {
			continue
		}
		if !ch.HasLink("application/x-ndjson", ".ndjson") {
			c.Count("converse_not_ndjson", 1)
			continue
		}
		c.Count("converse_reported_ndjson", 1)
		h := lib.Header(d, L)
		truncated := L != 0 && len(h) >= int(L)
		if good, why := c13NdjsonOracle(h, truncated); !good {
			c.Violate("ndjson-with-bad-line", key13(d, L), fmt.Sprintf("reported application/x-ndjson although %s; input %s limit %d", why, fw.Quote(d, 120), L),
				fw.InCase{Kind: kind, In: d, Limit: L, Entry: "Detect", Aux: "converse-ndjson", InQ: fw.Quote(d, 120)})
		}
	}
}

func c13Run(c *fw.Ctx, b fw.Batch) {
	t := baseTree()
	r := c.Rand
	switch b.Kind {
	case "tables":
		for i := 0; i < b.N; i++ {
			delim := byte(',')
			if r.Intn(2) == 0 {
				delim = '\t'
			}
			rows, cols := 2+r.Intn(6), 2+r.Intn(5)
			crlf, quoted, tnl := r.Intn(3) == 0, r.Intn(3) == 0, r.Intn(4) != 0
			other := r.Intn(12) == 0
			if r.Intn(10) == 0 { // larger tables
				rows = 20 + r.Intn(60)
			}
			tb := c13MakeTable(r, delim, rows, cols, crlf, quoted, tnl, 0, other)
			// UTF-8 byte-order mark in front (the usual "CSV UTF-8" export). Only when the first cell is
			// unquoted: encoding/csv keeps the BOM as cell content, so BOM + quoted first cell is a
			// different (unsupported) dialect that the statement does not cover.
			if r.Intn(6) == 0 && len(tb.data) > 0 && tb.data[0] != '"' {
				tb.data = append([]byte{0xEF, 0xBB, 0xBF}, tb.data...)
				for k := range tb.lineEnds {
					tb.lineEnds[k] += 3
				}
			}
			from := tb.lineEnds[1]
			if !tnl && rows == 2 {
				from = len(tb.data) + 1 // second line unterminated: only whole mode is claimed
			}
			tag := fmt.Sprintf("tbl|crlf=%v|q=%v|tnl=%v", crlf, quoted, tnl)
			c13Forward(c, t, "table", tb.data, from, delim, false, tag)
			if c.WantSample() && len(tb.data) < 100 && r.Intn(200) == 0 {
				c.Sample(map[string]any{"table": string(tb.data), "delimiter": string(delim), "limits_from": from, "to": len(tb.data)})
			}
		}
	case "comment-tables":
		for i := 0; i < b.N; i++ {
			delim := byte(',')
			if r.Intn(2) == 0 {
				delim = '\t'
			}
			rows, cols := 2+r.Intn(5), 2+r.Intn(4)
			tb := c13MakeTable(r, delim, rows, cols, r.Intn(3) == 0, false, true, 1+r.Intn(2), false)
			nrec, from := 0, len(tb.data)
			for li, isRec := range tb.isRecord {
				if isRec {
					nrec++
					if nrec == 2 {
						from = tb.lineEnds[li]
						break
					}
				}
			}
			c13Forward(c, t, "comment-table", tb.data, from, delim, false, "comment-table")
		}
	case "ndjson":
		for i := 0; i < b.N; i++ {
			nlines := 2 + r.Intn(6)
			crlf := r.Intn(3) == 0
			var buf bytes.Buffer
			var ends []int
			hasContainerEarly := false
			for li := 0; li < nlines; li++ {
				var line string
				wantContainer := (li == 1 && !hasContainerEarly) || r.Intn(3) != 0
				if wantContainer {
					o := gen.JSONOpts{MaxDepth: 1 + r.Intn(3), MaxItems: 1 + r.Intn(4), WS: r.Intn(2), Hostile: r.Intn(3) == 0, NoSvg: true}
					line = strings.TrimSpace(string(gen.JSONDoc(r, o)))
					if li < 2 {
						hasContainerEarly = true
					}
				} else {
					o := gen.JSONOpts{NoSvg: true}
					line = gen.JSONScalar(r, &o)
				}
				if strings.ContainsAny(line, "\n\r") {
					line = `{"k":1}`
				}
				if r.Intn(8) == 0 && !crlf {
					// a bare carriage return is JSON white space: legal between the tokens of a record
					line = strings.Replace(line, ":", ":\r", 1)
					line = strings.Replace(line, ",", ",\r ", 1)
				}
				buf.WriteString(line)
				if li < nlines-1 || r.Intn(4) != 0 {
					if crlf {
						buf.WriteString("\r\n")
					} else {
						buf.WriteString("\n")
					}
				}
				ends = append(ends, buf.Len())
			}
			d := buf.Bytes()
			from := ends[1]
			if d[len(d)-1] != '\n' && nlines == 2 {
				from = len(d) + 1
			}
			c13Forward(c, t, "ndjson", d, from, 'n', false, fmt.Sprintf("ndjson|crlf=%v", crlf))
			// the same stream is also a converse subject at every limit
			var lims []uint32
			for L := 1; L <= len(d)+1; L++ {
				lims = append(lims, uint32(L))
			}
			c13ConverseNdjson(c, "ndjson-stream", d, lims)
		}
	case "late-delimiter":
		// the first delimiter of the table lies beyond byte 512 (a very long first header cell)
		for _, delim := range []byte{',', '\t'} {
			for _, n := range []int{511, 512, 513, 600, 1500} {
				d := []byte(strings.Repeat("h", n) + string(delim) + "second\n" + "1" + string(delim) + "2\n" + "3" + string(delim) + "4\n")
				c13Forward(c, t, "late-delimiter", d, len(d)-4, delim, false, fmt.Sprintf("late|%c|%d", delim, n))
			}
		}
	case "damaged-tables":
		for i := 0; i < b.N; i++ {
			delim := byte(',')
			if r.Intn(2) == 0 {
				delim = '\t'
			}
			rows, cols := 3+r.Intn(5), 2+r.Intn(4)
			if i%4 == 0 { // long tables: a ragged line far down must still be seen
				rows = 18 + r.Intn(45)
			}
			if i%16 == 1 { // very long tables of short rows (more records than any fixed record budget)
				rows, cols = 130+r.Intn(400), 2
			}
			if i%16 == 9 { // thousands of short rows: the first bad row lies behind row 1000 / 1024 / 2048
				rows, cols = 1003+r.Intn(1500), 2
				c.Count("tables_of_more_than_1000_rows", 1)
			}
			crlf := r.Intn(3) == 0
			// simple unquoted cells, no comments, no foreign delimiter
			var lines []string
			for ri := 0; ri < rows; ri++ {
				var cells []string
				for j := 0; j < cols; j++ {
					cells = append(cells, []string{"a", "bb", "c3", "42", "x y", "q.r"}[r.Intn(6)])
				}
				lines = append(lines, strings.Join(cells, string(delim)))
			}
			for dmg := 0; dmg < rows; dmg++ {
				if rows > 12 && dmg > 3 && dmg < rows-3 && dmg%5 != i%5 {
					continue
				}
				if rows >= 1000 && dmg > 3 && dmg < rows-3 && !(dmg >= 998 && dmg <= 1002) && !(dmg >= 1023 && dmg <= 1025) && !(dmg >= 2047 && dmg <= 2049) && dmg%500 != i%500 {
					continue
				}
				if rows >= 130 && rows < 1000 && dmg > 3 && dmg < rows-3 && dmg != 127 && dmg != 128 && dmg != 129 && dmg != 255 && dmg != 256 && dmg != 257 && dmg%40 != i%40 {
					continue
				}
				mod := append([]string{}, lines...)
				cells := strings.Split(mod[dmg], string(delim))
				more := r.Intn(2) == 0
				if more {
					cells = append(cells, "extra")
				} else {
					cells = cells[:len(cells)-1]
				}
				mod[dmg] = strings.Join(cells, string(delim))
				nl := "\n"
				if crlf {
					nl = "\r\n"
				}
				d := []byte(strings.Join(mod, nl) + nl)
				// offset just past the damaged line's newline
				end := 0
				for k := 0; k <= dmg; k++ {
					end += len(mod[k]) + len(nl)
				}
				// the claim needs a second complete line as well
				second := len(mod[0]) + len(mod[1]) + 2*len(nl)
				from := maxInt(end, second)
				lims := []uint32{0, uint32(len(d) + 1)}
				for L := from; L <= len(d); L++ {
					if len(d) > 300 && L > from+3 && L < len(d)-3 && L%11 != 0 {
						continue
					}
					if rows >= 1000 && L > from+3 && L < len(d)-3 && L%997 != 0 {
						continue
					}
					lims = append(lims, uint32(L))
				}
				nm := c13Names[delim]
				for _, L := range lims {
					ch, ok := c13Detect(c, "damaged-table", d, L, "one line with a field more/less")
					if !ok {
						continue
					}
					c.Count("converse_damaged_table_cases", 1)
					if ch.HasLink(nm[0], nm[1]) {
						c.Violate("ragged-table-reported", key13(d, L), fmt.Sprintf("table whose complete line %d has %d fields instead of %d reported as %s; input %s limit %d", dmg+1, len(cells), cols, ch, fw.Quote(d, 120), L),
							fw.InCase{Kind: "damaged-table", In: d, Limit: L, Entry: "Detect", Aux: fmt.Sprintf("converse-table|%c", delim), InQ: fw.Quote(d, 120)})
					}
				}
				c.Distinct(fmt.Sprintf("dmg|%c|%d/%d|more=%v|crlf=%v|cols=%d", delim, dmg, rows, more, crlf, cols))
			}
		}
	case "long-lines":
		// size thresholds: a record of more than 64 KiB among the lines
		long := `{"k":"` + strings.Repeat("x", 70000) + `"}`
		for vi, lines := range [][]string{{long, `{"a":1}`, `[2]`}, {`{"a":1}`, long, `[2]`}, {`{"a":1}`, `[2]`, long, `{"b":`}, {`1`, long}} {
			d := []byte(strings.Join(lines, "\n") + "\n")
			lims := []uint32{0, uint32(len(d) + 1), uint32(len(d)), 80000, 1 << 20}
			c13ConverseNdjson(c, "long-line-stream", d, lims)
			if vi < 2 {
				for _, L := range lims {
					ch, ok := c13Detect(c, "long-line-stream", d, L, "expect ndjson")
					if ok && L != 80000 {
						if v, why := familyOrException(t, ch, "application/x-ndjson", ".ndjson"); v == "miss" {
							c.Violate("line-format-lost", key13(d, L), fmt.Sprintf("NDJSON stream with a %d-byte record expected application/x-ndjson, got %s: %s (limit %d)", len(long), ch, why, L), fw.InCase{Kind: "long-line-stream", In: d, Limit: L, Entry: "Detect", Aux: "forward|n|0|false"})
						}
					}
				}
			}
			c.Distinct(fmt.Sprintf("longline|%d", vi))
		}
		wide := strings.Repeat("cell,", 14000) + "end"
		d := []byte(wide + "\n" + wide + "\n" + wide + "\n")
		for _, L := range []uint32{0, uint32(len(d) + 1), 1 << 20} {
			ch, ok := c13Detect(c, "wide-table", d, L, "expect csv")
			if ok && !ch.HasLink("text/csv", ".csv") {
				c.Violate("line-format-lost", key13(d, L), fmt.Sprintf("CSV table with %d-byte records reported as %s (limit %d)", len(wide), ch, L), fw.InCase{Kind: "wide-table", In: d, Limit: L, Entry: "Detect", Aux: "forward|,|0|false"})
			}
		}
	case "concurrent":
		// the same tables / streams detected by 8 goroutines at once (pooled readers are shared)
		type probe struct {
			d    []byte
			want [2]string
		}
		var ps []probe
		for i := 0; i < 40; i++ {
			delim := byte(',')
			if i%2 == 0 {
				delim = '\t'
			}
			tb := c13MakeTable(r, delim, 3+r.Intn(30), 2+r.Intn(4), false, i%3 == 0, true, 0, false)
			if ch := lib.ChainOf(lib.Detect(tb.data, 0)); ch.HasLink(c13Names[delim][0], c13Names[delim][1]) {
				ps = append(ps, probe{tb.data, c13Names[delim]})
			}
		}
		ps = append(ps, probe{[]byte("{\"a\":1}\n[2,3]\n{\"b\":{}}\n"), c13Names['n']})
		var wg sync.WaitGroup
		for g := 0; g < 8; g++ {
			wg.Add(1)
			gr := rand.New(rand.NewSource(r.Int63()))
			go func() {
				defer wg.Done()
				for k := 0; k < b.N; k++ {
					p := ps[gr.Intn(len(ps))]
					var ch lib.Chain
					func() {
						defer func() {
							if e := recover(); e != nil {
								c.Violate("panic", key13(p.d, 0), fmt.Sprint("panic under concurrent detection: ", e), fw.InCase{Kind: "concurrent", In: p.d, Aux: "concurrent"})
							}
						}()
						ch = lib.ChainOf(mimetype.Detect(p.d))
					}()
					c.Eval(1)
					if ch != nil && !ch.HasLink(p.want[0], p.want[1]) {
						c.Violate("line-format-lost", key13(p.d, 0), fmt.Sprintf("while 8 goroutines detect concurrently a rectangular table / stream is reported as %s, sequentially as %s", ch, p.want[0]), fw.InCase{Kind: "concurrent", In: p.d, Aux: "concurrent"})
						return
					}
				}
			}()
		}
		mimetype.SetLimit(0)
		wg.Wait()
		mimetype.SetLimit(3072)
		c.Count("concurrent_detections", int64(8*b.N))
		c.Distinct("concurrent")
	case "single-column":
		// lines without any delimiter: one field per record, never a table
		for i := 0; i < b.N; i++ {
			n := 2 + r.Intn(8)
			var ls []string
			for k := 0; k < n; k++ {
				ls = append(ls, []string{"alpha", "beta gamma", "42", "x.y", "héllo", "a;b", "k=v", "-"}[r.Intn(8)])
			}
			nl := "\n"
			if r.Intn(3) == 0 {
				nl = "\r\n"
			}
			d := []byte(strings.Join(ls, nl) + nl)
			for _, L := range []uint32{0, uint32(len(d) + 1), uint32(len(d)), uint32(1 + r.Intn(len(d)))} {
				ch, ok := c13Detect(c, "single-column", d, L, "one field per line")
				if !ok {
					continue
				}
				c.Count("converse_single_column_cases", 1)
				if ch.HasLink("text/csv", ".csv") || ch.HasLink("text/tab-separated-values", ".tsv") {
					c.Violate("single-column-reported-as-table", key13(d, L), fmt.Sprintf("lines with a single field each reported as %s; input %s limit %d", ch, fw.Quote(d, 100), L),
						fw.InCase{Kind: "single-column", In: d, Limit: L, Entry: "Detect", Aux: "converse-single", InQ: fw.Quote(d, 100)})
				}
			}
			c.Distinct(fmt.Sprintf("single|%d|%q", n, nl))
		}
	case "soups":
		goodLines := []string{`{"a":1}`, `[1,2]`, `{}`, `[]`, `1`, `"s"`, `true`, `null`, ` {"b":[1]} `, `-1.5e3`, `{"a":{"b":[]}}`, ``, `  `, "\t"}
		badLines := []string{`{"a":`, `[1,`, `"abc`, `tru`, `{]`, `{"a":1}}`, `[1]]`, `{"a" 1}`, `{"a":1} x`, `[1 2]`, `{`, `[`, `{"a":[}`, `nul`, `1 2`, `"a" "b"`, `{"a":1},`, `\`, `'a'`, `[1,]x`, "\u00a0", "\u2028", "\x0c", " \u3000 ", "\x0b", "\u0085"}
		for i := 0; i < b.N; i++ {
			n := 2 + r.Intn(5)
			var ls []string
			nbad := 0
			for k := 0; k < n; k++ {
				if r.Intn(4) == 0 {
					ls = append(ls, badLines[r.Intn(len(badLines))])
					nbad++
				} else {
					ls = append(ls, goodLines[r.Intn(len(goodLines))])
				}
			}
			nl := "\n"
			if r.Intn(3) == 0 {
				nl = "\r\n"
			}
			s := strings.Join(ls, nl)
			if r.Intn(3) != 0 {
				s += nl
			}
			d := []byte(s)
			var lims []uint32
			lims = append(lims, 0, 3072)
			for L := 1; L <= len(d)+1; L++ {
				lims = append(lims, uint32(L))
			}
			c13ConverseNdjson(c, "line-soup", d, lims)
			c.Distinct(fmt.Sprintf("soup|n=%d|bad=%d|%q", n, nbad, nl))
			if nbad > 0 {
				c.Distinct(fmt.Sprintf("soup-bad|%s", ls[0]))
			}
		}
	}
}

func init() {
	fw.Register(&fw.Prop{
		ID:    "C13",
		Level: "exploration",
		Rule: "forward: rectangular CSV/TSV tables (2-6 columns, 2-7 rows and some of 20-80 rows, some with a UTF-8 byte-order mark in front, LF/CRLF, optional properly quoted cells containing the delimiter, with/without final newline, occasionally the other delimiter inside cells) and NDJSON streams (one generated JSON value per line, an object/array within the first two lines) detected at EVERY limit from just past the second line's newline to len, and whole; tables with interspersed '#' comment lines (the dialect the converse clause names: comment lines are not records) are expected to be detected from the second record line on. converse: single-column files (one field per line) must not be tables; tables of simple cells (3-7 rows, and 18-62 rows) with exactly one complete line damaged (one field more/less) at every line index x every limit that keeps the damaged line complete; NDJSON streams (also with records of 70 KB, and 70 KB-wide CSV rows, under raised limits), the same tables detected by 8 goroutines at once, and line soups (valid values, blank lines, 20 malformed line kinds) at every limit, judged by the reference recogniser per line. " +
			"non-trivial = a truncated detection with the cut strictly inside the file (forward), or an input containing a damaged/malformed line (converse); distinct = distinct (family, CRLF, quoting, final newline, position of the cut relative to line structure, delimiter) / (damaged line index, row count, more/less, columns) / (soup shape) tuples.",
		Assumptions: []string{
			"'complete line' means newline-terminated inside the examined header when the header was cut by the limit",
			"blank lines inside tables are not generated (the statement is silent on them)",
			"NDJSON converse uses the weakest reading: >= 2 lines (the unterminated one included), every complete line blank or a complete relaxed-JSON value, some line begins an object/array",
		},
		Plan: func(tier string, seed int64) []fw.Batch {
			nt, nc, nn, nd, ns := 5000, 1200, 4000, 500, 20000
			if tier == "thorough" {
				nt, nc, nn, nd, ns = 80000, 20000, 60000, 8000, 300000
			}
			var bs []fw.Batch
			bs = append(bs, batches("tables", 5, nt, 1800)...)
			bs = append(bs, batches("comment-tables", 1, nc, 1800)...)
			bs = append(bs, batches("ndjson", 5, nn, 1800)...)
			bs = append(bs, batches("late-delimiter", 1, 0, 1800)...)
			bs = append(bs, batches("damaged-tables", 2, nd, 1800)...)
			bs = append(bs, batches("soups", 3, ns, 1800)...)
			bs = append(bs, batches("single-column", 1, nd*4, 1800)...)
			bs = append(bs, batches("long-lines", 1, 0, 1800)...)
			bs = append(bs, batches("concurrent", 2, nd*40, 1800)...)
			return bs
		},
		Run: c13Run,
		Replay: func(c *fw.Ctx, payload stdjson.RawMessage) {
			ic, err := replayInCase(payload)
			if err != nil {
				fmt.Println("bad payload:", err)
				return
			}
			if ic.Entry != "" && ic.Entry != "charset.FromPlain" {
				forcedEntry = ic.Entry
			}
			t := baseTree()
			p := strings.Split(ic.Aux, "|")
			switch p[0] {
			case "forward":
				which := p[1][0]
				nm := c13Names[which]
				ch, ok := c13Detect(c, ic.Kind, ic.In, ic.Limit, "")
				if ok {
					if v, why := familyOrException(t, ch, nm[0], nm[1]); v == "miss" {
						c.Violate("line-format-lost", key13(ic.In, ic.Limit), fmt.Sprintf("expected %s, got %s: %s", nm[0], ch, why), ic)
					}
				}
			case "converse-ndjson":
				c13ConverseNdjson(c, ic.Kind, ic.In, []uint32{ic.Limit})
			case "concurrent":
				c13Run(c, fw.Batch{Kind: "concurrent", N: 20000})
			case "converse-single":
				ch, ok := c13Detect(c, ic.Kind, ic.In, ic.Limit, "")
				if ok && (ch.HasLink("text/csv", ".csv") || ch.HasLink("text/tab-separated-values", ".tsv")) {
					c.Violate("single-column-reported-as-table", key13(ic.In, ic.Limit), "single-column lines reported as "+ch.String(), ic)
				}
			case "converse-table":
				nm := c13Names[p[1][0]]
				ch, ok := c13Detect(c, ic.Kind, ic.In, ic.Limit, "")
				if ok && ch.HasLink(nm[0], nm[1]) {
					c.Violate("ragged-table-reported", key13(ic.In, ic.Limit), "ragged table reported as "+ch.String(), ic)
				}
			}
		},
		Finish: func(a *fw.Agg) error {
			for _, k := range []string{"forward_kept_.csv", "forward_kept_.tsv", "forward_kept_.ndjson", "converse_damaged_table_cases", "converse_reported_ndjson", "converse_not_ndjson"} {
				if a.Counters[k] < 200 {
					return fmt.Errorf("counter %s only %d", k, a.Counters[k])
				}
			}
			return nil
		},
	})
}
