package props

import (
	"bytes"
	stdjson "encoding/json"
	"fmt"
	"strings"

	"github.com/gabriel-vasile/mimetype"

	"verifharness/internal/fw"
	"verifharness/internal/gen"
	"verifharness/internal/lib"
	"verifharness/internal/oracle"
)

// C09 — malformed JSON is not reported as JSON.
//
// Oracle: oracle.Doc, an independent recogniser of the relaxed language (RFC 8259
// structure + the tolerated lexical leniencies). Refuting events:
//   whole mode (limit 0 or len < limit):  JSON-family result  and  status != Complete
//   truncated mode (len >= limit):        JSON-family result  and  status == Fail
// (a parser that is stricter than the relaxed language passes).

var c09Tokens = []string{"[", "]", "{", "}", ",", ":", `"`, `"a"`, "1", " ", "\n", "a", `\`, "-", "tru", "null"}

var magicJSON func([]byte, uint32) bool

func c09Judge(c *fw.Ctx, kind string, x []byte, limit uint32, distinct bool) {
	entry := "Detect"
	if forcedEntry != "" || kind != "enum" || c.Rand.Intn(30) == 0 {
		entry = pickEntry(c)
	}
	if magicJSON == nil {
		magicJSON = mimetype.VerifMagic()["JSON"]
	}
	h := lib.Header(x, limit)
	whole := limit == 0 || len(h) < int(limit)
	st := oracle.Doc(h)
	key := fw.InputKey(x, limit, entry)
	c.Trace(func() (string, any) { return key, fw.MkInCase(kind, x, limit, entry, "") })
	var ch lib.Chain
	var direct bool
	ok := c.Guard(key, func() any { return fw.MkInCase(kind, x, limit, entry, "panic") }, func() {
		m := detectEntry(x, limit, entry)
		anomalyC02(c, m, nil)
		ch = lib.ChainOf(m)
		direct = magicJSON(h, limit)
	})
	c.Eval(1)
	if !ok {
		return
	}
	// oracle sanity: strict validity implies Complete
	if stdjson.Valid(h) && oracle.FirstIsContainer(h) && st != oracle.Complete {
		panic(fmt.Sprintf("verif harness: reference recogniser rejects strictly valid JSON %q", h))
	}
	fam := inJSONFamily(ch)
	if fam {
		c.Count("reported_json", 1)
	}
	switch st {
	case oracle.Fail:
		c.Count("oracle_fail", 1)
	case oracle.Incomplete:
		c.Count("oracle_incomplete", 1)
	default:
		c.Count("oracle_complete", 1)
	}
	bad := ""
	if whole && st != oracle.Complete {
		bad = "whole document examined, reference recogniser says not a complete relaxed-JSON array/object"
	} else if !whole && st == oracle.Fail {
		bad = "prefix examined, reference recogniser says it is not a prefix of any relaxed-JSON document"
	}
	if bad != "" {
		c.Count("cases_parser_must_reject", 1)
		if fam {
			c.Violate("malformed-reported-as-json", key, fmt.Sprintf("%s, but result is %s; input %s limit %d", bad, ch, fw.Quote(x, 100), limit),
				fw.MkInCase(kind, x, limit, entry, bad))
		}
		if direct {
			c.Violate("malformed-accepted-by-signature-check", fw.InputKey(x, limit, "magic.JSON"), fmt.Sprintf("%s, but the JSON signature check accepts it; input %s limit %d", bad, fw.Quote(x, 100), limit),
				fw.MkInCase(kind, x, limit, "magic.JSON", bad))
		}
		if distinct {
			c.Disjoint(1)
		}
	}
	if c.WantSample() && bad != "" && len(x) > 3 && c.Rand.Intn(20000) == 0 {
		c.Sample(map[string]any{"input": fw.Quote(x, 80), "limit": limit, "mode_whole": whole, "oracle": []string{"Fail", "Incomplete", "Complete"}[st], "result": ch.String()})
	}
}

// c09Enum enumerates all token sequences of exactly n tokens whose first token
// index is in firsts, for the slice [lo,hi) of the second-token space.
func c09Enum(n int, first int, f func(x []byte)) {
	idx := make([]int, n)
	idx[0] = first
	buf := make([]byte, 0, 64)
	for {
		buf = buf[:0]
		for _, i := range idx {
			buf = append(buf, c09Tokens[i]...)
		}
		f(buf)
		k := n - 1
		for k >= 1 {
			idx[k]++
			if idx[k] < len(c09Tokens) {
				break
			}
			idx[k] = 0
			k--
		}
		if k < 1 {
			return
		}
	}
}

func c09Mutate(c *fw.Ctx, d []byte) []byte {
	r := c.Rand
	x := append([]byte{}, d...)
	structural := []byte(`[]{},:"\`)
	pos := func() int {
		// prefer structural positions
		for try := 0; try < 8; try++ {
			p := r.Intn(len(x))
			for _, s := range structural {
				if x[p] == s {
					return p
				}
			}
		}
		return r.Intn(len(x))
	}
	if len(x) == 0 {
		return x
	}
	switch r.Intn(8) {
	case 0: // delete a structural byte
		p := pos()
		x = append(x[:p], x[p+1:]...)
	case 1: // insert a structural byte
		p := r.Intn(len(x) + 1)
		x = append(x[:p], append([]byte{structural[r.Intn(len(structural))]}, x[p:]...)...)
	case 2: // swap two bytes
		p, q := pos(), pos()
		x[p], x[q] = x[q], x[p]
	case 3: // drop the last closer
		for i := len(x) - 1; i >= 0; i-- {
			if x[i] == ']' || x[i] == '}' {
				x = append(x[:i], x[i+1:]...)
				break
			}
		}
	case 4: // duplicate a comma
		for try := 0; try < 10; try++ {
			p := r.Intn(len(x))
			if x[p] == ',' {
				x = append(x[:p], append([]byte{','}, x[p:]...)...)
				break
			}
		}
	case 5: // cut and append garbage
		p := r.Intn(len(x) + 1)
		x = append(x[:p], []string{"x", "]", "}", ",,", ":", "\"", "tru", "nul", "[", "{"}[r.Intn(10)]...)
	case 6: // replace a structural byte by another
		p := pos()
		x[p] = structural[r.Intn(len(structural))]
	default: // append trailing garbage after the document
		x = append(x, []string{"x", "]", "}", ",", "1", "[]", "{}", "\"a\""}[r.Intn(8)]...)
	}
	return x
}

func c09Run(c *fw.Ctx, b fw.Batch) {
	switch b.Kind {
	case "enum":
		// b.N = sequence length; b.Idx selects the first token
		n := b.N
		first := b.Idx
		c09Enum(n, first, func(x []byte) {
			y := append([]byte(nil), x...)
			c09Judge(c, "enum", y, 0, true)
			c09Judge(c, "enum", y, uint32(len(y)), true)
			if len(y) > 1 && (y[0] == '[' || y[0] == '{' || y[0] == ' ') {
				c09Judge(c, "enum", y, uint32(len(y)+1), false)
				c09Judge(c, "enum", y, uint32(len(y)-1), false)
			}
		})
	case "huge":
		// size thresholds: a defect only in the tail of a document of more than 1 MiB
		for si, size := range []int{1300000, 5 << 20, 17 << 20} {
			var big bytes.Buffer
			big.WriteString("[")
			for big.Len() < size {
				big.WriteString(`{"k":[1,2,3],"s":"some text"},`)
			}
			base := big.Bytes()
			tails := []string{`{"k":1}]`, `{"k":1}`, `{"k" 1}]`, `{"k":1}]]`, `{"k":1}}`, `{"k":1},]x`, `tru]`, `{"k":1}] junk`, `"a" "b"]`}
			if si > 0 {
				tails = []string{`{"k":1}]`, `{"k":1}`, `{"k" 1}]`, `{"k":1}}`, `{"k":1}] junk`}
			}
			for ti, tl := range tails {
				x := append(append([]byte{}, base...), tl...)
				lims := []uint32{0, 8 << 20, uint32(len(x)), uint32(len(x) + 1)}
				if si > 0 {
					lims = []uint32{0, uint32(len(x) + 1)}
				}
				for _, l := range lims {
					c09Judge(c, "huge", x, l, false)
				}
				c.Distinct(fmt.Sprintf("huge|%d|%d", si, ti))
			}
		}
	case "escapes":
		// \u followed by 0-4 hex digits and then EVERY byte value; long strings (> 32
		// bytes) holding an invalid escape, whole and cut inside the string
		for _, pre := range []string{`["\u`, `["\u1`, `["\u12`, `["\u12a`, `{"\u`, `{"a\u00e`, `["caf\u00e`, `["\`} {
			for v := 0; v < 256; v++ {
				for _, suf := range []string{"", `"]`, `x"]`, `1234"]`} {
					x := append(append([]byte(pre), byte(v)), suf...)
					for _, l := range []uint32{0, uint32(len(x)), uint32(len(pre) + 1)} {
						c09Judge(c, "escapes", x, l, false)
					}
				}
			}
			c.Distinct("esc|" + pre)
		}
		pad := strings.Repeat("long string content ", 10)
		for _, bad := range []string{`\q`, `\x41`, `\u12zz`, `\ `, `\U0041`, `\'`, `\u`, `\a`} {
			for _, shape := range []string{`["%s`, `{"k":"%s`, `{"%s`, `[1,{"a":["%s`} {
				d := fmt.Sprintf(shape, pad+bad+pad) + `"]`
				x := []byte(d)
				for cut := len(x) - 3; cut > len(shape); cut -= 7 {
					c09Judge(c, "long-string-bad-escape", x, uint32(cut), false)
				}
				c09Judge(c, "long-string-bad-escape", x, 0, false)
			}
			c.Distinct("longesc|" + bad)
		}
	case "affix":
		// every byte value and several multi-byte white-space look-alikes before /
		// after / inside-the-gaps of valid documents
		docs := []string{`[]`, `{}`, `[1,2]`, `{"a":1}`, `{"a":[true,null]}`, `[ 1 , "x" ]`, `{"type":"Feature"}`}
		var affixes [][]byte
		for v := 0; v < 256; v++ {
			affixes = append(affixes, []byte{byte(v)})
		}
		for _, s := range []string{"\u0085", "\u00a0", "\u2028", "\u2029", "\u3000", "\ufeff", "\u200b", "\x0c\x0c", "\x0b ", " \x00", "\r\n\x0c", "//c", "/**/", "#c"} {
			affixes = append(affixes, []byte(s))
		}
		for _, d := range docs {
			for _, a := range affixes {
				for pos := 0; pos <= 2; pos++ {
					var x []byte
					switch pos {
					case 0:
						x = append(append([]byte{}, a...), d...)
					case 1:
						x = append(append([]byte{}, d...), a...)
					default:
						x = append(append(append([]byte{}, d[:1]...), a...), d[1:]...)
					}
					for _, l := range []uint32{0, 3072, uint32(len(x)), uint32(len(x) + 1)} {
						c09Judge(c, "affix", x, l, false)
					}
				}
				c.Distinct(fmt.Sprintf("affix|%s|%x", d, a))
			}
		}
	case "deep":
		// malformed input behind (and around) the recursion cap: more than 4096
		// nested openers followed by garbage must not get the benefit of the doubt
		opens := []string{"[", `{"k":`, `[{"k":`, "[ "}
		tails := []string{"]}", "1 2 3", ":::", "prose here", "}]", "1]]x", `"a" "b"`, ",", "]", "tru", `{"a" 1}`, "[1,,2]", "\\", "}}}}"}
		for _, op := range opens {
			per := strings.Count(op, "[") + strings.Count(op, "{")
			for _, depth := range []int{100, 4000, 4094, 4096, 4097, 4098, 4100, 5000, 9000} {
				head := gen.Nest(op, "", "", depth/per)
				for ti, tl := range tails {
					x := append(append([]byte{}, head...), tl...)
					if ti%2 == 0 { // also with balanced closers after the garbage
						x = append(x, gen.Nest("", "", "]", depth/per)...)
					}
					for _, l := range []uint32{0, uint32(len(x)), uint32(len(x) + 1), 1 << 20} {
						c09Judge(c, "deep-garbage", x, l, false)
					}
					c.Distinct(fmt.Sprintf("deep|%s|%d|%d", op, depth, ti))
				}
			}
		}
	case "structural-strings":
		// strings that consist of structural characters, as keys and values, in every small
		// template, closed by every closer (a parser that keeps brackets and keys in one
		// stack must not confuse the key "[" with an open array)
		strs := []string{`"["`, `"{"`, `"]"`, `"}"`, `","`, `":"`, `"[["`, `"{\"a\":"`, `"\\"`, `"\""`, `"[a"`, `"a["`, `""`, `"data:;base64,QUJD\\"`, `"data:image/png;base64,QUJD\"`, `"data:;base64,\q"`, `"data:text/plain;base64,\\\\"`}
		closers := []string{"]", "}", "", "]]", "}}", "]}", "}]", ",", "]\n", "} "}
		tmpls := []string{`{S:1X`, `{"a":{S:nullX}`, `{"a":{S:nullX`, `[SX`, `[{S:1X,`, `[{S:1X]`, `{S:[1X}`, `{S:[1X`, `{"type":"Feature",S:0X`, `{S:{S:SX}`, `[S,SX`, `{"k":[S,{S:SX]}`}
		for _, t := range tmpls {
			for _, s1 := range strs {
				for _, x1 := range closers {
					x := []byte(strings.ReplaceAll(strings.ReplaceAll(t, "S", s1), "X", x1))
					for _, l := range []uint32{0, uint32(len(x)), uint32(len(x) + 1), 3072, uint32(len(x) - 1)} {
						if l == 0 && len(x) == 0 {
							continue
						}
						c09Judge(c, "structural-strings", x, l, false)
					}
					c.Count("structural_string_documents", 1)
				}
			}
		}
	case "mutate":
		r := c.Rand
		for i := 0; i < b.N; i++ {
			o := gen.JSONOpts{MaxDepth: 1 + r.Intn(4), MaxItems: 1 + r.Intn(4), WS: r.Intn(3), Hostile: r.Intn(2) == 0, NoSvg: true}
			d := gen.JSONDoc(r, o)
			if len(d) > 400 {
				continue
			}
			x := c09Mutate(c, d)
			if r.Intn(3) == 0 {
				x = c09Mutate(c, x)
			}
			lims := []uint32{0, uint32(len(x)), uint32(len(x) + 1), 3072}
			if len(x) > 2 {
				lims = append(lims, uint32(1+r.Intn(len(x))), uint32(1+r.Intn(len(x))))
			}
			for _, l := range lims {
				if l == uint32(len(x)) && len(x) == 0 {
					continue
				}
				c09Judge(c, "mutate", x, l, false)
			}
			st := oracle.Doc(x)
			if st != oracle.Complete {
				c.Distinct(fmt.Sprintf("mut|%d|%x", st, hashBytes(x)))
			}
		}
	}
}

func hashBytes(b []byte) uint64 {
	var h uint64 = 14695981039346656037
	for _, c := range b {
		h ^= uint64(c)
		h *= 1099511628211
	}
	return h
}

func c09EnumLen(tier string) int {
	if tier == "thorough" {
		return 7
	}
	return 6
}

func init() {
	fw.Register(&fw.Prop{
		ID:    "C09",
		Level: "exploration",
		Rule: "bounded-exhaustive: ALL sequences of 1..N tokens over the 16-token alphabet [ ] { } , : \" \"a\" 1 space newline a \\ - tru null (N = 6 quick, 7 thorough), each detected whole (limit 0, and len+1) and truncated (limit = len, and len-1), through Detect and through the JSON signature check directly; plus mutated valid documents (delete/insert/swap/replace a structural byte, drop a closer, duplicate a comma, cut + garbage) for longer inputs, plus every byte value and Unicode white-space look-alikes (U+0085, U+00A0, U+2028, U+3000, form feed, comments) before / after / inside valid documents, plus \\u escapes followed by every byte value and long strings holding an invalid escape (whole and cut inside the string), plus documents of > 1 MiB, > 5 MiB and > 17 MiB whose only defect is in the tail, plus garbage behind 100-9000 nested openers (around and beyond the recursion cap of 4096). " +
			"non-trivial = the reference recogniser says the parser has something to reject in that mode (whole: not Complete; truncated: Fail); enumerated strings are distinct by construction (counted once per string and mode), mutants are counted by content hash.",
		Assumptions: []string{
			"the relaxed language is the one written in oracle/refjson.go from the property statement: RFC 8259 structure, numbers = runs over [-+.0-9eE] with a digit, any byte but '\"' inside strings with the standard escapes, one trailing comma before a closer",
			"stricter-than-relaxed rejections are not alarms",
			"encoding/json.Valid implies Complete is asserted on every case as an oracle self-check",
		},
		Exhaustive: func(tier string) bool { return true },
		Plan: func(tier string, seed int64) []fw.Batch {
			var bs []fw.Batch
			N := c09EnumLen(tier)
			for n := 1; n <= N; n++ {
				for first := 0; first < len(c09Tokens); first++ {
					bs = append(bs, fw.Batch{Name: fmt.Sprintf("enum-len%d-first%d", n, first), Kind: "enum", N: n, Idx: first, Of: len(c09Tokens), TimeoutS: 3600})
				}
			}
			nm := 20000
			if tier == "thorough" {
				nm = 400000
			}
			bs = append(bs, batches("mutate", 8, nm, 1800)...)
			bs = append(bs, batches("structural-strings", 1, 0, 1800)...)
			bs = append(bs, batches("deep", 1, 0, 1800)...)
			bs = append(bs, batches("affix", 1, 0, 1800)...)
			bs = append(bs, batches("huge", 1, 0, 1800)...)
			bs = append(bs, batches("escapes", 1, 0, 1800)...)
			// longest batches first
			for i, j := 0, len(bs)-1; i < j; i, j = i+1, j-1 {
				bs[i], bs[j] = bs[j], bs[i]
			}
			return bs
		},
		Run: c09Run,
		Replay: func(c *fw.Ctx, payload stdjson.RawMessage) {
			ic, err := replayInCase(payload)
			if err != nil {
				fmt.Println("bad payload:", err)
				return
			}
			if ic.Entry != "magic.JSON" {
				forcedEntry = ic.Entry
			}
			c09Judge(c, ic.Kind, ic.In, ic.Limit, false)
		},
		Finish: func(a *fw.Agg) error {
			if a.Counters["cases_parser_must_reject"] < 100000 || a.Counters["reported_json"] < 1000 {
				return fmt.Errorf("too few informative cases (must-reject %d, reported json %d)", a.Counters["cases_parser_must_reject"], a.Counters["reported_json"])
			}
			return nil
		},
	})
}
