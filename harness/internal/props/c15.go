package props

import (
	stdjson "encoding/json"
	"fmt"
	"math/rand"
	"strings"

	"github.com/gabriel-vasile/mimetype"

	"verifharness/internal/fw"
	"verifharness/internal/lib"
)

// C15 — equality helpers ignore case, whitespace and parameters and know aliases.
//
// Oracle: norm(s) = text before the first ';', trimmed, ASCII lower-cased.
//   m.Is(d(a))               <=>  a == m's type or a is one of m's aliases
//   EqualsAny(d(a), d'(b))   <=>  a == b                     (registered a, b)
//   for detection results r: r.Is(r.String()), EqualsAny(r.String(), r.String()),
//   Lookup(norm(r.String())) != nil and .Is(r.String()); every ancestor of r
//   answers to the aliases of its format; Lookup(a).Is(a) for every name/alias.

func c15Norm(s string) string {
	if i := strings.IndexByte(s, ';'); i >= 0 {
		s = s[:i]
	}
	s = strings.TrimSpace(s) // Unicode white space, as the documented "leading and trailing whitespace"
	return lowerASCII(s)
}

var c15ParamNames = []string{"charset", "q", "boundary", "version", "profile", "x-a", "level", "format", "name", "codecs"}

func c15Param(r *rand.Rand, name string) string {
	if r.Intn(2) == 0 {
		name = randCase(r, name)
	}
	switch r.Intn(7) {
	case 0:
		return name + "=" + []string{"utf-8", "1", "0.8", "abc", "x-y_z", "a.b"}[r.Intn(6)]
	case 1:
		return name + `="` + []string{"utf-8", "a b", "a;b", "a,b=c", `q\"uote`, `back\\slash`, "", "text/plain", "x; charset=y"}[r.Intn(9)] + `"`
	case 2:
		return name + "*=utf-8''%E2%82%AC%20rates"
	case 3:
		return name + "*=us-ascii'en'This%20is%20fun"
	case 4:
		return name + `*0="part one "; ` + name + `*1="part two"`
	case 5:
		return name + "*0*=utf-8''a%20; " + name + "*1*=b%21"
	default:
		return name + `="(comment-looking) <a@b> [x] ?= /"`
	}
}

func c15Decorate(r *rand.Rand, a string) string {
	ws := []string{"", "", " ", "  ", "\t", "\r\n", "\n", " \t ", "\u0085", "\u00a0", "\u2003", "\u3000", "\u2028 ", "\x0c", "\x0b"}
	var sb strings.Builder
	sb.WriteString(ws[r.Intn(len(ws))])
	switch r.Intn(3) {
	case 0:
		sb.WriteString(a)
	case 1:
		sb.WriteString(strings.ToUpper(a))
	default:
		sb.WriteString(randCase(r, a))
	}
	np := r.Intn(5)
	perm := r.Perm(len(c15ParamNames))
	for i := 0; i < np; i++ {
		sb.WriteString(ws[r.Intn(len(ws))])
		sb.WriteString(";")
		sb.WriteString([]string{"", " ", "  ", "\t"}[r.Intn(4)])
		sb.WriteString(c15Param(r, c15ParamNames[perm[i]]))
	}
	if np == 0 && r.Intn(6) == 0 {
		sb.WriteString([]string{";", " ;", "; "}[r.Intn(3)])
	}
	sb.WriteString(ws[r.Intn(len(ws))])
	return sb.String()
}

type c15Payload struct {
	What string `json:"what"` // is, equalsany, result
	Node string `json:"node_mime"`
	S    string `json:"s"`
	T    string `json:"t,omitempty"`
	Want bool   `json:"want"`
	In   []byte `json:"in,omitempty"`
	Lim  uint32 `json:"limit,omitempty"`
}

func c15CheckIs(c *fw.Ctx, m *mimetype.MIME, own map[string]bool, s string, base string) {
	want := own[base]
	var got bool
	p := c15Payload{What: "is", Node: m.String(), S: s, Want: want}
	key := fmt.Sprintf("is node=%s s=%q", m.String(), s)
	c.Trace(func() (string, any) { return key, p })
	if !c.Guard(key, func() any { return p }, func() { got = m.Is(s) }) {
		return
	}
	c.Eval(1)
	if got != want {
		c.Violate("is-wrong", key, fmt.Sprintf("(%s).Is(%q) = %v, want %v (normalised %q; names of the format %v)", m.String(), s, got, want, c15Norm(s), keys(own)), p)
	}
}

func keys(m map[string]bool) []string {
	var k []string
	for s := range m {
		k = append(k, s)
	}
	return k
}

func c15CheckResult(c *fw.Ctx, t *lib.Tree, kind string, in []byte, lim uint32) {
	var m *mimetype.MIME
	p := c15Payload{What: "result", In: in, Lim: lim}
	key := fw.InputKey(in, lim, "Detect")
	c.Trace(func() (string, any) { return key, p })
	var problems []string
	ok := c.Guard(key, func() any { return p }, func() {
		m = lib.Detect(in, lim)
		s := m.String()
		if !m.Is(s) {
			problems = append(problems, fmt.Sprintf("d.Is(d.String()) is false for %q", s))
		}
		if !mimetype.EqualsAny(s, s) {
			problems = append(problems, fmt.Sprintf("EqualsAny(d.String(), d.String()) is false for %q", s))
		}
		lk := mimetype.Lookup(c15Norm(s))
		if lk == nil {
			problems = append(problems, fmt.Sprintf("Lookup(%q) (bare type of %q) is nil", c15Norm(s), s))
		} else if !lk.Is(s) {
			problems = append(problems, fmt.Sprintf("Lookup(%q).Is(%q) is false", c15Norm(s), s))
		}
		// ancestors answer to their own names and aliases
		ch := lib.ChainOf(m)
		path := t.PathOfChain(ch)
		i := len(path) - 1
		for q := m; q != nil && i >= 0; q, i = q.Parent(), i-1 {
			n := t.Nodes[path[i]]
			for _, nm := range append([]string{n.MIME}, n.Aliases...) {
				if !q.Is(nm) {
					problems = append(problems, fmt.Sprintf("element %q of the result hierarchy does not answer Is(%q)", q.String(), nm))
				}
				if !q.Is(strings.ToUpper(nm) + " ; x=1") {
					problems = append(problems, fmt.Sprintf("element %q of the result hierarchy does not answer Is(decorated %q)", q.String(), nm))
				}
			}
		}
	})
	c.Eval(1)
	if !ok {
		return
	}
	c.Count("detection_results_checked", 1)
	if strings.ContainsAny(m.String(), "\"*") {
		c.Count("results_with_quoted_or_rfc2231_parameter", 1)
		c.Distinct("result|" + byteClassSig(m.String()))
	}
	for _, pr := range problems {
		c.Violate("result-self-equality", key, pr+"; input "+fw.Quote(in, 100), p)
		break
	}
}

func c15Run(c *fw.Ctx, b fw.Batch) {
	t := baseTree()
	r := c.Rand
	names := map[string]bool{}
	for _, n := range t.Nodes {
		names[n.MIME] = true
		for _, a := range n.Aliases {
			names[a] = true
		}
	}
	var all []string
	for n := range names {
		all = append(all, n)
	}
	sortStrings(all)
	unregistered := []string{"application/x-unknown", "text/plainn", "application/jso", "image", "/", "application/zip2", "text/x-plain", "", "image/*", "*/*", "text/*", "text/*; q=0.8", "application/*", "image/", "image/pn", "mage/png", "*", "text/plain/x", "text"}
	// distinct node "identities" by (mime, alias set): one *MIME per distinct mime via Lookup
	type nodeInfo struct {
		m   *mimetype.MIME
		own map[string]bool
	}
	var nodes []nodeInfo
	seen := map[string]bool{}
	for _, n := range t.Nodes {
		if seen[n.MIME] {
			continue
		}
		seen[n.MIME] = true
		lk := mimetype.Lookup(n.MIME)
		if lk == nil {
			c.Violate("lookup-nil", "lookup "+n.MIME, "Lookup of the registered type "+n.MIME+" is nil", c15Payload{What: "lookup", S: n.MIME})
			continue
		}
		// the node Lookup returns is the first in depth-first order with that name
		first := t.Nodes[t.Lookup(n.MIME)]
		own := map[string]bool{first.MIME: true}
		for _, a := range first.Aliases {
			own[a] = true
		}
		nodes = append(nodes, nodeInfo{lk, own})
	}
	switch b.Kind {
	case "matrix":
		lo, hi := split(len(nodes), b.Idx, b.Of)
		for _, nd := range nodes[lo:hi] {
			for _, a := range all {
				c15CheckIs(c, nd.m, nd.own, a, a)
				for k := 0; k < b.N; k++ {
					c15CheckIs(c, nd.m, nd.own, c15Decorate(r, a), a)
				}
				if nd.own[a] {
					c.Distinct("is-true|" + nd.m.String() + "|" + a)
				}
			}
			for _, u := range unregistered {
				c15CheckIs(c, nd.m, nd.own, u, c15Norm(u))
				c15CheckIs(c, nd.m, nd.own, c15Decorate(r, u), c15Norm(u))
			}
			// the format's own names with ONE letter replaced by a Unicode look-alike that folds to it
			// (U+017F long s, U+0131 dotless i): not the same name. U+212A Kelvin sign is left out: strings.ToLower maps it to k, so mime.ParseMediaType itself treats it as a case variant
			for a := range nd.own {
				for _, cf := range [][2]string{{"s", "\u017f"}, {"i", "\u0131"}, {"S", "\u017f"}} {
					if i := strings.Index(a, cf[0]); i >= 0 {
						v := a[:i] + cf[1] + a[i+1:]
						c15CheckIs(c, nd.m, nd.own, v, c15Norm(v))
						c15CheckIs(c, nd.m, nd.own, strings.ToUpper(a[:i])+cf[1]+strings.ToUpper(a[i+1:]), c15Norm(v))
					}
				}
				// and with very long runs of white space around it (still the same name)
				if r.Intn(8) == 0 {
					pad := strings.Repeat(" ", []int{4095, 4096, 5000, 70000}[r.Intn(4)])
					c15CheckIs(c, nd.m, nd.own, pad+a, a)
					c15CheckIs(c, nd.m, nd.own, a+pad+"; charset=utf-8", a)
					c15CheckIs(c, nd.m, nd.own, pad+strings.ToUpper(a)+pad, a)
				}
			}
		}
	case "equalsany":
		lo, hi := split(len(all), b.Idx, b.Of)
		for _, a := range all[lo:hi] {
			// every registered name/alias resolves through Lookup to a format that Is it
			lk := mimetype.Lookup(a)
			c.Eval(1)
			if lk == nil || !lk.Is(a) || !lk.Is(c15Decorate(r, a)) {
				c.Violate("lookup-is", "lookup-is "+a, fmt.Sprintf("Lookup(%q) = %v; it must find a format that Is(%q)", a, lk, a), c15Payload{What: "lookup", S: a})
			}
			for k := 0; k < b.N; k++ {
				other := all[r.Intn(len(all))]
				if k%3 == 0 {
					other = a
				}
				s, u := c15Decorate(r, a), c15Decorate(r, other)
				want := a == other
				var got bool
				p := c15Payload{What: "equalsany", S: s, T: u, Want: want}
				key := fmt.Sprintf("equalsany %q %q", s, u)
				c.Trace(func() (string, any) { return key, p })
				if !c.Guard(key, func() any { return p }, func() {
					decoys := []string{c15Decorate(r, all[r.Intn(len(all))]), u}
					if decoys[0] != "" && c15Norm(decoys[0]) == a {
						decoys = decoys[1:]
					}
					got = mimetype.EqualsAny(s, decoys...)
				}) {
					continue
				}
				c.Eval(1)
				if got != want {
					c.Violate("equalsany-wrong", key, fmt.Sprintf("EqualsAny(%q, …, %q) = %v, want %v", s, u, got, want), p)
				}
				if want {
					c.Distinct("eq|" + a)
				}
			}
		}
	case "extend":
		// names and aliases registered at run time resolve too - also when they
		// were looked up (and not found) before the registration
		for i := 0; i < b.N; i++ {
			name := fmt.Sprintf("application/x-verif-c15-%d-%d", b.Idx, i)
			if i%5 == 4 {
				name = fmt.Sprintf("application/vnd.Verif-C15.macroEnabled.%d.%d", b.Idx, i) // legal mixed-case main type
			}
			var als []string
			for k := r.Intn(4); k > 0; k-- {
				als = append(als, fmt.Sprintf("application/x-verif-c15-alias-%d-%d-%d", b.Idx, i, k))
			}
			asked := r.Intn(2) == 0
			if asked {
				for _, nm := range append([]string{name}, als...) {
					if mimetype.Lookup(nm) != nil {
						c.Violate("lookup-is", "lookup-before "+nm, "Lookup found "+nm+" before it was registered", c15Payload{What: "extend", S: nm})
					}
				}
			}
			parent := []string{"", "text/plain", "application/zip", "application/json"}[r.Intn(4)]
			det := func([]byte, uint32) bool { return false }
			if parent == "" {
				mimetype.Extend(det, name, ".c15", als...)
			} else {
				mimetype.Lookup(parent).Extend(det, name, ".c15", als...)
			}
			for _, nm := range append([]string{name}, als...) {
				lk := mimetype.Lookup(nm)
				c.Eval(1)
				c.Count("runtime_registered_names_checked", 1)
				if lk == nil || lk.String() != name || (nm == strings.ToLower(nm) && (!lk.Is(nm) || !lk.Is(c15Decorate(r, nm)))) || !lk.Is(strings.ToLower(name)) {
					c.Violate("lookup-is", "lookup-after-extend asked-before="+fmt.Sprint(asked), fmt.Sprintf("%q was registered (name %s, aliases %v, looked up before registration: %v) but Lookup(%q) = %v does not resolve to a format that Is it", nm, name, als, asked, nm, lk), c15Payload{What: "extend", S: nm})
				}
				if asked {
					c.Distinct("ext-asked|" + fmt.Sprint(len(als)))
				}
			}
			if i%200 == 199 {
				mimetype.VerifResetTree()
			}
		}
		mimetype.VerifResetTree()
		// two formats whose alias lists are adjacent windows of ONE caller-owned table:
		// no helper call may make one format answer to (or lose) the other's names
		for i := 0; i < b.N/4+5; i++ {
			table := []string{fmt.Sprintf("application/x-verif-c15-w-%d-a", i), fmt.Sprintf("application/x-verif-c15-w-%d-b", i), fmt.Sprintf("application/x-verif-c15-w-%d-c", i), "SENTINEL"}
			n1, n2 := fmt.Sprintf("application/x-verif-c15-win-%d-1", i), fmt.Sprintf("application/x-verif-c15-win-%d-2", i)
			det := func([]byte, uint32) bool { return false }
			mimetype.Extend(det, n1, ".w1", table[:1]...)
			mimetype.Extend(det, n2, ".w2", table[1:3]...)
			f1, f2 := mimetype.Lookup(n1), mimetype.Lookup(n2)
			for k := 0; k < 3; k++ { // helper calls of every kind on both formats
				f1.Is(n2)
				f1.Is("text/plain; q=1")
				f2.Is(table[0])
				mimetype.EqualsAny(n1, n2, table[1])
			}
			c.Eval(1)
			want := map[string]string{table[0]: n1, table[1]: n2, table[2]: n2, n1: n1, n2: n2}
			for nm, owner := range want {
				lk := mimetype.Lookup(nm)
				if lk == nil || lk.String() != owner || !lk.Is(nm) {
					c.Violate("lookup-is", "alias-windows "+nm, fmt.Sprintf("after Is / EqualsAny calls on two formats registered with adjacent windows of one alias table, Lookup(%q) = %v, want the format %s", nm, lk, owner), c15Payload{What: "extend", S: nm})
				}
			}
			if f1.Is(table[1]) || f1.Is(n2) || f2.Is(table[0]) || f2.Is(n1) {
				c.Violate("is-wrong", "alias-windows-cross", "a format answers Is() for a name that belongs to the other format registered from the same alias table", c15Payload{What: "extend", S: n1})
			}
			if table[3] != "SENTINEL" || table[0][len(table[0])-1] != 'a' || table[1][len(table[1])-1] != 'b' {
				c.Violate("is-wrong", "alias-table-written", fmt.Sprintf("the caller's alias table was modified: %q", table), c15Payload{What: "extend", S: n1})
			}
			c.Distinct("alias-windows")
			if i%100 == 99 {
				mimetype.VerifResetTree()
			}
		}
		mimetype.VerifResetTree()
	case "results":
		seeds := lib.Seeds()
		if b.Idx == 0 {
			// every string / byte literal of the tree's source, alone and padded: a format
			// the library registers is detected from its own signature literal
			for _, lit := range lib.SourceDictionary() {
				if len(lit) == 0 || len(lit) > 200 {
					continue
				}
				c15CheckResult(c, t, "dictionary", lit, 0)
				c15CheckResult(c, t, "dictionary", append(append([]byte{}, lit...), make([]byte, 600)...), 3072)
				c.Count("source_literals_detected", 1)
			}
		}
		for i := 0; i < b.N; i++ {
			var in []byte
			switch r.Intn(4) {
			case 0:
				in = seeds[r.Intn(len(seeds))]
				if len(in) > 3000 {
					in = in[:3000]
				}
			case 1:
				lab := c02Label(r)
				if r.Intn(4) == 0 {
					lab = []string{"utf-8; charset=latin1", "x;charset=y", "a\"; charset=\"b", "utf-8 ; CHARSET = x", "k;q=1", "a;charset", ";", ";;charset=;"}[r.Intn(8)]
				}
				in, _ = c02Doc(r, lab)
			case 2:
				in = c12HTML(r, false).data
			default:
				in = []byte(c11Texts[r.Intn(len(c11Texts))])
			}
			c15CheckResult(c, t, "result", in, []uint32{0, 3072, uint32(1 + r.Intn(len(in)+1))}[r.Intn(3)])
		}
	}
}

func sortStrings(s []string) {
	for i := 1; i < len(s); i++ {
		for j := i; j > 0 && s[j] < s[j-1]; j-- {
			s[j], s[j-1] = s[j-1], s[j]
		}
	}
}

func init() {
	fw.Register(&fw.Prop{
		ID:    "C15",
		Level: "exploration",
		Rule: "exhaustive (format x registered name/alias) matrix undecorated, plus k random decorations per pair: upper / random letter case, surrounding space / TAB / CR / LF / FF / VT and Unicode white space U+0085 U+00A0 U+2003 U+3000 U+2028 (also between the subtype and ';'), 0-4 well-formed distinct parameters (tokens, quoted strings containing ; , = \\\" \\\\, RFC 2231 charset/language and continuation forms), a trailing ';'; unregistered look-alike names incl. a letter replaced by a Unicode character that case-folds to it (U+017F, U+0131), runs of 4095 … 70000 blanks around registered names, media ranges (image/*, */*, text/*; q=0.8) and truncated names; EqualsAny over decorated pairs of registered names with decoys; every registered name and alias through Lookup(a).Is(a), including names and aliases registered at run time through Extend (half of them looked up, and not found, before their registration); detection results from seeds, every string / byte literal of the tree's source (alone and zero-padded), hostile charset labels (incl. labels that contain '; charset=…'), generated HTML and text: d.Is(d.String()), EqualsAny(d.String(), d.String()), Lookup(bare type).Is(d.String()), and every ancestor of the result answers to all names and aliases of its format. " +
			"non-trivial = a pair where the helper must answer true (name or alias of the format) or a result whose String() carries a quoted / RFC 2231 parameter; distinct = distinct (format, name) pairs / names / result byte-class signatures.",
		Assumptions: []string{
			"well-formed parameters only (no malformed or duplicate parameter lists on the argument side)",
			"normalisation = text before the first ';', trimmed of space/TAB/CR/LF, ASCII lower-cased",
		},
		Exhaustive: func(tier string) bool { return false },
		Plan: func(tier string, seed int64) []fw.Batch {
			km, ke, nr := 40, 300, 100000
			if tier == "thorough" {
				km, ke, nr = 800, 6000, 2000000
			}
			var bs []fw.Batch
			bs = append(bs, batches("matrix", 10, km, 1800)...)
			bs = append(bs, batches("equalsany", 3, ke, 1800)...)
			bs = append(bs, batches("results", 3, nr, 1800)...)
			bs = append(bs, batches("extend", 1, nr/20, 1800)...)
			return bs
		},
		Run: c15Run,
		Replay: func(c *fw.Ctx, payload stdjson.RawMessage) {
			var p c15Payload
			if err := stdjson.Unmarshal(payload, &p); err != nil {
				fmt.Println("bad payload:", err)
				return
			}
			switch p.What {
			case "is":
				m := mimetype.Lookup(p.Node)
				if m == nil {
					fmt.Println("node not found")
					return
				}
				if got := m.Is(p.S); got != p.Want {
					c.Violate("is-wrong", "is", fmt.Sprintf("(%s).Is(%q) = %v, want %v", p.Node, p.S, got, p.Want), p)
				}
			case "equalsany":
				if got := mimetype.EqualsAny(p.S, p.T); got != p.Want {
					c.Violate("equalsany-wrong", "equalsany", fmt.Sprintf("EqualsAny(%q, %q) = %v, want %v", p.S, p.T, got, p.Want), p)
				}
			case "result":
				c15CheckResult(c, baseTree(), "replay", p.In, p.Lim)
			case "extend":
				c15Run(c, fw.Batch{Kind: "extend", N: 500, Idx: 99})
			case "lookup":
				lk := mimetype.Lookup(p.S)
				if lk == nil || !lk.Is(p.S) {
					c.Violate("lookup-is", "lookup-is "+p.S, "Lookup / Is failed for "+p.S, p)
				}
			}
		},
		Finish: func(a *fw.Agg) error {
			if a.Counters["detection_results_checked"] < 10000 || a.Counters["results_with_quoted_or_rfc2231_parameter"] < 500 {
				return fmt.Errorf("too few detection results (%d, with quoted/rfc2231 %d)", a.Counters["detection_results_checked"], a.Counters["results_with_quoted_or_rfc2231_parameter"])
			}
			return nil
		},
	})
}
