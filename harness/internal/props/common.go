// Package props holds one workload + oracle per property (C01..C19).
package props

import (
	"bufio"
	"bytes"
	"encoding/json"
	"fmt"
	"io"
	"os"
	"path/filepath"
	"sync"
	"syscall"
	"time"

	"github.com/gabriel-vasile/mimetype"

	"verifharness/internal/fw"
	"verifharness/internal/lib"
)

var (
	treeOnce sync.Once
	tree0    *lib.Tree
	valid0   *lib.Validator
)

// baseTree returns the snapshot of the built-in tree taken before any Extend.
func baseTree() *lib.Tree {
	treeOnce.Do(func() {
		tree0 = lib.Snapshot()
		valid0 = lib.NewValidator(tree0)
	})
	return tree0
}

func validator() *lib.Validator {
	baseTree()
	return valid0
}

// split returns the half-open range of items [lo,hi) of n items handled by
// batch idx of `of`.
func split(n, idx, of int) (int, int) {
	if of <= 0 {
		return 0, n
	}
	lo := n * idx / of
	hi := n * (idx + 1) / of
	return lo, hi
}

// batches builds `of` batches of a kind.
func batches(kind string, of, n, timeoutS int) []fw.Batch {
	var bs []fw.Batch
	for i := 0; i < of; i++ {
		bs = append(bs, fw.Batch{Name: fmt.Sprintf("%s-%d/%d", kind, i, of), Kind: kind, Idx: i, Of: of, N: n, TimeoutS: timeoutS})
	}
	return bs
}

// detect runs one detection through the chosen entry point with the limit set
// explicitly. Entry: "Detect", "DetectReader".
func detect(in []byte, limit uint32, entry string) (*mimetype.MIME, error) {
	mimetype.SetLimit(limit)
	switch entry {
	case "DetectReader":
		return mimetype.DetectReader(bytes.NewReader(in))
	case "DetectReader1":
		return mimetype.DetectReader(iotest1{bytes.NewReader(in)})
	case "DetectReaderBufio": // a *bufio.Reader with the default 4096-byte buffer
		return mimetype.DetectReader(bufio.NewReader(bytes.NewReader(in)))
	case "DetectReaderPreRead": // a seekable reader that stands behind a (binary) prefix it has already delivered
		pre := []byte("\x00\x01\x02 BINARY PREFIX \x00")
		br := bytes.NewReader(append(append([]byte{}, pre...), in...))
		br.Seek(int64(len(pre)), io.SeekStart)
		return mimetype.DetectReader(br)
	case "DetectReaderPreReadText": // the same with a clean text prefix
		pre := []byte("a clean text prefix that was read before\n")
		br := bytes.NewReader(append(append([]byte{}, pre...), in...))
		io.CopyN(io.Discard, br, int64(len(pre)))
		return mimetype.DetectReader(br)
	case "DetectReaderBufio16":
		return mimetype.DetectReader(bufio.NewReaderSize(iotest1{bytes.NewReader(in)}, 16))
	default:
		return mimetype.Detect(in), nil
	}
}

// forcedEntry is set by replays so that the recorded entry point is used again.
var forcedEntry string

// pickEntry chooses the entry point for one judged case: mostly Detect, sometimes
// DetectReader behind an oddly chunking reader, rarely DetectFile on a temp file.
func pickEntry(c *fw.Ctx) string {
	if forcedEntry != "" {
		return forcedEntry
	}
	switch k := c.Rand.Intn(1000); {
	case k < 850:
		return "Detect"
	case k < 996:
		return "DetectReaderChunked"
	case k < 999:
		return "DetectFile"
	default:
		return "DetectFileSymlink"
	}
}

type oddChunks struct {
	b   []byte
	pos int
	k   int
}

func (o *oddChunks) Read(p []byte) (int, error) {
	if len(p) == 0 {
		return 0, nil
	}
	if o.pos >= len(o.b) {
		return 0, io.EOF
	}
	o.k++
	n := []int{1, 3, 7, 2, 512, 5, 4096, 1}[o.k%8]
	if n > len(p) {
		n = len(p)
	}
	if n > len(o.b)-o.pos {
		n = len(o.b) - o.pos
	}
	copy(p, o.b[o.pos:o.pos+n])
	o.pos += n
	if o.pos == len(o.b) && o.k%2 == 0 {
		return n, io.EOF
	}
	return n, nil
}

// detectEntry runs the detection through the given entry point with the limit set explicitly.
func detectEntry(in []byte, limit uint32, entry string) *mimetype.MIME {
	mimetype.SetLimit(limit)
	switch entry {
	case "DetectReaderChunked":
		m, err := mimetype.DetectReader(&oddChunks{b: in})
		if err != nil {
			panic("DetectReader returned an error for a reader that never fails: " + err.Error())
		}
		return m
	case "DetectFileSymlink": // the path names a symbolic link to the file
		f := filepath.Join(os.TempDir(), fmt.Sprintf("verif-entry-%d-target.bin", os.Getpid()))
		l := filepath.Join(os.TempDir(), fmt.Sprintf("verif-entry-%d-link", os.Getpid()))
		if werr := os.WriteFile(f, in, 0o600); werr != nil {
			panic("verif harness: temp file: " + werr.Error())
		}
		defer os.Remove(f)
		os.Remove(l)
		if os.Symlink(f, l) != nil {
			return mimetype.Detect(in) // no symlinks here: fall back to the plain entry point
		}
		defer os.Remove(l)
		m, err := mimetype.DetectFile(l)
		if err != nil {
			panic("DetectFile returned an error for a symbolic link to a readable file: " + err.Error())
		}
		return m
	case "DetectFilePipe": // the path names a FIFO; another goroutine writes the bytes into it and closes it
		ff := filepath.Join(os.TempDir(), fmt.Sprintf("verif-entry-%d.fifo", os.Getpid()))
		os.Remove(ff)
		if syscall.Mkfifo(ff, 0o600) != nil {
			return mimetype.Detect(in) // no FIFOs here: fall back to the plain entry point
		}
		defer os.Remove(ff)
		done := make(chan struct{})
		go func() {
			defer close(done)
			w, err := os.OpenFile(ff, os.O_WRONLY, 0)
			if err != nil {
				return
			}
			defer w.Close()
			w.Write(in)
		}()
		m, err := mimetype.DetectFile(ff)
		select {
		case <-done:
		case <-time.After(3 * time.Second): // harness liveness only: release a writer nobody opened the FIFO for
			if rd, e := os.OpenFile(ff, os.O_RDONLY|syscall.O_NONBLOCK, 0); e == nil {
				<-done
				rd.Close()
			}
		}
		if err != nil {
			panic("DetectFile returned an error for a named pipe that a writer fills and closes: " + err.Error())
		}
		return m
	case "DetectFile":
		f := filepath.Join(os.TempDir(), fmt.Sprintf("verif-entry-%d.bin", os.Getpid()))
		if werr := os.WriteFile(f, in, 0o600); werr != nil {
			panic("verif harness: temp file: " + werr.Error())
		}
		defer os.Remove(f)
		m, err := mimetype.DetectFile(f)
		if err != nil {
			panic("DetectFile returned an error for a readable file: " + err.Error())
		}
		return m
	}
	return mimetype.Detect(in)
}

// detectPipePaused runs DetectFile on a FIFO whose writer delivers in[:cut], pauses, delivers the
// rest and closes. The pause only shapes the workload (a reader that settles for the first piece
// sees a shorter header); no verdict depends on it.
func detectPipePaused(in []byte, limit uint32, cut int) (*mimetype.MIME, error) {
	mimetype.SetLimit(limit)
	ff := filepath.Join(os.TempDir(), fmt.Sprintf("verif-paused-%d.fifo", os.Getpid()))
	os.Remove(ff)
	if syscall.Mkfifo(ff, 0o600) != nil {
		return mimetype.Detect(in), nil // no FIFOs here: fall back to the plain entry point
	}
	defer os.Remove(ff)
	if cut > len(in) {
		cut = len(in)
	}
	done := make(chan struct{})
	go func() {
		defer close(done)
		w, err := os.OpenFile(ff, os.O_WRONLY, 0)
		if err != nil {
			return
		}
		defer w.Close()
		if _, err := w.Write(in[:cut]); err != nil {
			return
		}
		time.Sleep(20 * time.Millisecond)
		w.Write(in[cut:])
	}()
	m, err := mimetype.DetectFile(ff)
	select {
	case <-done:
	case <-time.After(3 * time.Second): // harness liveness only
		if rd, e := os.OpenFile(ff, os.O_RDONLY|syscall.O_NONBLOCK, 0); e == nil {
			<-done
			rd.Close()
		}
	}
	return m, err
}

type iotest1 struct{ r io.Reader }

func (o iotest1) Read(p []byte) (int, error) {
	if len(p) == 0 {
		return 0, nil
	}
	return o.r.Read(p[:1])
}

// anomalyC02 counts (does not judge) results that break the C02 invariant in
// workloads of other properties; C02's own check judges them.
func anomalyC02(c *fw.Ctx, m *mimetype.MIME, err error) {
	if s := validator().Check(m, err); s != "" {
		c.Count("c02_invariant_anomalies_seen_not_judged_here", 1)
	}
}

// replayInCase decodes an InCase payload.
func replayInCase(payload json.RawMessage) (fw.InCase, error) {
	var ic fw.InCase
	err := json.Unmarshal(payload, &ic)
	return ic, err
}

func isTextChain(ch lib.Chain) bool { return ch.Has("text/plain") }

// inJSONFamily: application/json or one of its sub-types anywhere in the chain.
func inJSONFamily(ch lib.Chain) bool { return ch.Has("application/json") }

func minInt(a, b int) int {
	if a < b {
		return a
	}
	return b
}
func maxInt(a, b int) int {
	if a > b {
		return a
	}
	return b
}

// exceptionJustified decides whether a result outside the expected family is the
// "bytes also carry a higher-priority signature" exception of the statements. The
// signatures are written here as they were pinned when the properties were stated
// (only for the formats the generators can deliberately trigger); a format that is
// not in this table, or whose pinned signature the examined header does not carry,
// is not an exception: a signature that was widened until it captures other
// formats' files is exactly the regression the statements exclude.
func exceptionJustified(format string, h []byte) (bool, string) {
	at := func(off int, lits ...string) bool {
		for _, l := range lits {
			if len(h) >= off+len(l) && string(h[off:off+len(l)]) == l {
				return true
			}
		}
		return false
	}
	switch format {
	case "image/svg+xml":
		return bytes.Contains(h, []byte("<svg")), "pinned signature: the bytes \"<svg\" somewhere in the header"
	case "application/x-msaccess":
		return at(4, "Standard Jet DB", "Standard ACE DB"), "pinned signature: \"Standard Jet DB\" / \"Standard ACE DB\" at offset 4"
	case "image/x-gimp-gbr":
		return at(20, "GIMP"), "pinned signature: \"GIMP\" at offset 20"
	case "image/x-gimp-pat":
		return at(20, "GPAT"), "pinned signature: \"GPAT\" at offset 20"
	case "application/pdf":
		return at(0, "%PDF-", "\n%PDF-", "\xef\xbb\xbf%PDF-"), "pinned signature: %PDF- at the start (optionally after LF or a UTF-8 BOM)"
	case "application/vnd.microsoft.portable-executable":
		return at(0, "MZ"), "pinned signature: MZ at the start"
	case "application/x-elf":
		return at(0, "\x7fELF"), "pinned signature: 7F 45 4C 46 at the start"
	case "application/x-mobipocket-ebook":
		return at(60, "BOOKMOBI"), "pinned signature: BOOKMOBI at offset 60"
	case "application/dicom":
		return at(128, "DICM"), "pinned signature: DICM at offset 128"
	case "image/gif":
		return at(0, "GIF87a", "GIF89a"), "pinned signature: GIF87a / GIF89a at the start"
	case "application/x-rpm":
		return at(0, "drpm", "\xed\xab\xee\xdb"), "pinned signature: drpm / ED AB EE DB at the start"
	case "image/x-icns":
		return at(0, "icns"), "pinned signature: icns at the start"
	case "application/x-cpio":
		return at(0, "070707", "070701", "070702"), "pinned signature: 070707 / 070701 / 070702 at the start"
	case "application/zip":
		ok := len(h) > 3 && h[0] == 'P' && h[1] == 'K' && (h[2] == 3 || h[2] == 5 || h[2] == 7) && (h[3] == 4 || h[3] == 6 || h[3] == 8)
		return ok, "pinned signature: PK 03/05/07 04/06/08 at the start"
	}
	return false, "not a format whose pinned signature the generated inputs can carry"
}
