package props

import (
	"bytes"
	"encoding/binary"
	stdjson "encoding/json"
	"fmt"
	"io"
	"math"
	"os"
	"path/filepath"
	"runtime"
	"runtime/debug"
	"strings"

	"github.com/gabriel-vasile/mimetype"

	"verifharness/internal/fw"
	"verifharness/internal/gen"
	"verifharness/internal/lib"
)

// C01 — detection never crashes, never over-reads, always answers.
//
// Monitors: (1) every input is placed in a guard-page arena: the slice ends
// exactly at a PROT_NONE page and has cap == len, so a read past the end is a
// SIGSEGV (fatal, pinned by the supervisor's trace re-run) and a reslice past
// len panics (recovered, reported); (2) panics are recovered around every
// library call; (3) nil results are reported; (4) a call that does not return is
// a watchdog verdict of the supervisor (hang).

type c01Case struct {
	Kind  string `json:"kind"`
	In    []byte `json:"in"`
	Entry string `json:"entry"` // sweep (all detectors + VerifMatch + Detect), reader, file
	InQ   string `json:"in_quoted"`
}

func c01Limits(n int, r interface{ Intn(int) int }) []uint32 {
	return []uint32{0, 1, uint32(maxInt(n-1, 0)), uint32(n), uint32(n) + 1, 3072, math.MaxInt32, 1 << 31, math.MaxUint32, uint32(r.Intn(n + 8))}
}

func lenBucket(n int) int {
	b := 0
	for n > 0 {
		n >>= 1
		b++
	}
	return b
}

func limClass(l uint32, n int) byte {
	switch {
	case l == 0:
		return '0'
	case int64(l) < int64(n):
		return '<'
	case int64(l) == int64(n):
		return '='
	case l >= 1<<31:
		return 'H'
	}
	return '>'
}

type c01State struct {
	t      *lib.Tree
	arena  *lib.Arena
	accept map[int]bool // per current seed: detectors accepting the full seed
}

// sweep calls every registered detector, VerifMatch and Detect on the guarded
// input with every limit of the set.
func (st *c01State) sweep(c *fw.Ctx, kind string, data []byte, track bool) {
	if len(data) > st.arena.Cap() {
		data = data[:st.arena.Cap()]
	}
	key := fw.InputKey(data, 0, "sweep")
	mk := func() any {
		return c01Case{Kind: kind, In: append([]byte(nil), data...), Entry: "sweep", InQ: fw.Quote(data, 100)}
	}
	c.Trace(func() (string, any) { return key, mk() })
	g := st.arena.Place(data)
	n := len(g)
	lims := c01Limits(n, c.Rand)
	calls := int64(0)
	ok := c.Guard(key, mk, func() {
		for _, lim := range lims {
			for _, nd := range st.t.Nodes {
				a := nd.Det(g, lim)
				calls++
				if a {
					if track {
						st.accept[nd.ID] = true
					}
					c.SetAdd("nodes_accepting", nd.MIME+nd.Ext)
				}
				if a || st.accept[nd.ID] {
					c.Distinct(fmt.Sprintf("%d|%v|%d|%c", nd.ID, a, lenBucket(n), limClass(lim, n)))
				}
			}
			if m := mimetype.VerifMatch(g, lim); m == nil {
				panic("nil result from the tree walk")
			}
			mimetype.SetLimit(lim)
			if m := mimetype.Detect(g); m == nil {
				panic("nil result from Detect")
			} else if lim == 3072 || lim == 0 {
				anomalyC02(c, m, nil)
			}
			calls += 2
		}
	})
	c.Eval(calls)
	c.Count("inputs_swept", 1)
	_ = ok
}

type c01ChunkReader struct {
	b    []byte
	pos  int
	r    interface{ Intn(int) int }
	mode int
}

func (cr *c01ChunkReader) Read(p []byte) (int, error) {
	if len(p) == 0 {
		return 0, nil
	}
	if cr.pos >= len(cr.b) {
		return 0, io.EOF
	}
	n := 1
	switch cr.mode {
	case 1:
		n = 3
	case 2:
		n = 512
	case 3:
		n = 1 + cr.r.Intn(9)
	case 4:
		n = len(p)
	}
	if n > len(p) {
		n = len(p)
	}
	if n > len(cr.b)-cr.pos {
		n = len(cr.b) - cr.pos
	}
	copy(p, cr.b[cr.pos:cr.pos+n])
	cr.pos += n
	if cr.pos == len(cr.b) && cr.mode%2 == 0 {
		return n, io.EOF
	}
	return n, nil
}

func (st *c01State) readerFile(c *fw.Ctx, kind string, data []byte) {
	for _, lim := range []uint32{0, 1, 3072, uint32(len(data)), uint32(len(data) + 1)} {
		key := fw.InputKey(data, lim, "DetectReader")
		mk := func() any {
			return c01Case{Kind: kind, In: append([]byte(nil), data...), Entry: "reader", InQ: fw.Quote(data, 100)}
		}
		c.Trace(func() (string, any) { return key, mk() })
		c.Guard(key, mk, func() {
			mimetype.SetLimit(lim)
			m, err := mimetype.DetectReader(&c01ChunkReader{b: data, r: c.Rand, mode: c.Rand.Intn(5)})
			if m == nil {
				panic("nil result from DetectReader")
			}
			anomalyC02(c, m, err)
		})
		c.Eval(1)
	}
	f := filepath.Join(os.TempDir(), fmt.Sprintf("verif-c01-%d.bin", os.Getpid()))
	if err := os.WriteFile(f, data, 0o600); err != nil {
		panic("verif harness: temp file: " + err.Error())
	}
	defer os.Remove(f)
	for _, lim := range []uint32{0, 3072, uint32(len(data) / 2)} {
		key := fw.InputKey(data, lim, "DetectFile")
		mk := func() any {
			return c01Case{Kind: kind, In: append([]byte(nil), data...), Entry: "file", InQ: fw.Quote(data, 100)}
		}
		c.Trace(func() (string, any) { return key, mk() })
		c.Guard(key, mk, func() {
			mimetype.SetLimit(lim)
			m, err := mimetype.DetectFile(f)
			if m == nil {
				panic("nil result from DetectFile")
			}
			anomalyC02(c, m, err)
		})
		c.Eval(1)
	}
	c.Count("inputs_through_reader_and_file", 1)
}

func c01Run(c *fw.Ctx, b fw.Batch) {
	st := &c01State{t: baseTree(), arena: lib.NewArena(1 << 16), accept: map[int]bool{}}
	seeds := lib.Seeds()
	r := c.Rand
	thorough := c.Tier == "thorough"
	switch b.Kind {
	case "prefixes":
		lo, hi := split(len(seeds), b.Idx, b.Of)
		for si, s := range seeds[lo:hi] {
			if len(s) > 8192 {
				s = s[:8192]
			}
			st.accept = map[int]bool{}
			st.sweep(c, fmt.Sprintf("seed-%d-full", lo+si), s, true)
			dense := 700
			if thorough {
				dense = 2200
			}
			for n := 0; n < len(s); n++ {
				if n > dense && n%53 != 0 && n%512 > 2 && n%512 < 510 {
					continue
				}
				st.sweep(c, fmt.Sprintf("seed-%d-prefix", lo+si), s[:n], false)
			}
			if si%4 == 0 {
				st.readerFile(c, "seed", s)
			}
		}
	case "inject":
		lo, hi := split(len(seeds), b.Idx, b.Of)
		for si, s := range seeds[lo:hi] {
			if len(s) > 4096 {
				s = s[:4096]
			}
			st.accept = map[int]bool{}
			step := 2
			if thorough {
				step = 1
			}
			for off := 0; off+4 <= len(s) && off < 64; off += step {
				for vi, v := range gen.Interesting32 {
					if !thorough && (vi+off)%3 != 0 {
						continue
					}
					m := append([]byte(nil), s...)
					if (vi+off)%2 == 0 {
						binary.LittleEndian.PutUint32(m[off:], v)
					} else {
						binary.BigEndian.PutUint32(m[off:], v)
					}
					st.sweep(c, fmt.Sprintf("seed-%d-inject", lo+si), m, false)
				}
			}
			// ASCII digit runs (decimal length fields: MARC leader, tar octal fields, cpio, PDF) replaced by boundary numbers
			for i := 0; i < len(s) && i < 600; i++ {
				if s[i] < '0' || s[i] > '9' {
					continue
				}
				j := i
				for j < len(s) && s[j] >= '0' && s[j] <= '9' {
					j++
				}
				for _, v := range []string{"0", "1", "7", "23", "24", "25", "99999999999", "00000000000000000000"} {
					m := append([]byte(nil), s...)
					for k := i; k < j; k++ {
						m[k] = '0'
					}
					copy(m[maxInt(i, j-len(v)):j], v[maxInt(0, len(v)-(j-i)):])
					st.sweep(c, fmt.Sprintf("seed-%d-digits", lo+si), m, false)
				}
				i = j
			}
			// tokens from the signature tables of the tree under test behind the seed's first bytes
			dict := lib.SourceDictionary()
			for _, k := range []int{4, 8, len(s)} {
				if k > len(s) || k > 64 {
					continue
				}
				for ti, tok := range dict {
					if !thorough && (ti+k+si)%12 != 0 {
						continue
					}
					st.sweep(c, fmt.Sprintf("seed-%d-dictionary", lo+si), append(append([]byte{}, s[:k]...), tok...), false)
				}
			}
			nm := 400
			if thorough {
				nm = 30000
			}
			for k := 0; k < nm; k++ {
				m := append([]byte(nil), s...)
				if r.Intn(4) == 0 {
					o := seeds[r.Intn(len(seeds))]
					if len(o) > 4096 {
						o = o[:4096]
					}
					if len(o) > 0 && len(m) > 0 {
						m = append(m[:r.Intn(len(m))], o[r.Intn(len(o)):]...)
					}
				}
				for j := r.Intn(5); j > 0 && len(m) > 0; j-- {
					m[r.Intn(len(m))] = byte(r.Intn(256))
				}
				cut := r.Intn(len(m) + 1)
				st.sweep(c, fmt.Sprintf("seed-%d-mutant", lo+si), m[:cut], false)
			}
		}
	case "targeted":
		fams := map[string]func() [][]byte{"zip": gen.ZipHostile, "crx": gen.CRXHostile, "ole": gen.OLEHostile, "matroska": gen.MatroskaHostile, "text-tails": gen.TextTails, "small-boxes": gen.SmallBoxes, "markup": gen.MarkupHostile}
		names := []string{"zip", "crx", "ole", "matroska", "text-tails", "small-boxes", "markup"}
		name := names[b.Idx%len(names)]
		ins := fams[name]()
		for i, x := range ins {
			st.sweep(c, "targeted-"+name, x, false)
			if i%40 == 0 {
				st.readerFile(c, "targeted-"+name, x)
			}
		}
		c.Count("targeted_inputs_"+name, int64(len(ins)))
	case "bombs":
		// nesting bombs after a primer that leaves a deep pooled parser state
		// behind (see C16 for the full treatment); the stack is capped at 64 MiB so
		// unbounded recursion is a fatal overflow.
		debug.SetMaxStack(64 << 20)
		for _, primer := range [][]byte{nil, bytes.Repeat([]byte("["), 200), bytes.Repeat([]byte(`{"k":`), 300)} {
			for _, open := range []string{"[", `{"k":`, `[{"k":`} {
				for _, depth := range []int{5000, 100000, 1000000} {
					doc := bytes.Repeat([]byte(open), depth)
					key := fmt.Sprintf("bomb open=%q depth=%d primer=%d", open, depth, len(primer))
					mk := func() any { return c01Case{Kind: key, Entry: "bomb", InQ: key} }
					c.Trace(func() (string, any) { return key, mk() })
					c.Guard(key, mk, func() {
						if primer != nil {
							mimetype.SetLimit(3072)
							mimetype.Detect(primer)
						}
						for _, lim := range []uint32{0, uint32(len(doc))} {
							mimetype.SetLimit(lim)
							if mimetype.Detect(doc) == nil {
								panic("nil result")
							}
						}
					})
					c.Eval(2)
					c.Count("nesting_bombs", 1)
				}
			}
		}
	case "big-inputs":
		// single tokens of more than 1 MiB (comment, script body, text run, attribute value, JSON
		// string, CSV cell, one text line) examined in full: must return (the stall watchdog
		// turns a call that does not return into a violation) and must not panic
		big := func(unit string, n int) string { return strings.Repeat(unit, n/len(unit)+1) }
		docs := []string{
			"<html><head><!-- " + big("long comment ", 1500000) + "--><meta charset=\"koi8-r\"></head>",
			"<html><head><script>" + big("var x = 1; ", 1500000) + "</script><meta charset=\"koi8-r\">",
			"<html><body>" + big("text run without any tag ", 2500000) + "<meta charset=x>",
			"<html><body><a href=\"data:" + big("QUJD", 1300000) + "\">x</a><meta charset=x>",
			"<?xml version=\"1.0\"?><a b=\"" + big("v", 1300000) + "\"/>",
			"[\"" + big("s", 2100000) + "\"]",
			"a,b\n\"" + big("c", 2100000) + "\",d\n",
			big("one line of text without a newline ", 2100000),
			"<svg xmlns=\"http://www.w3.org/2000/svg\"><!-- " + big("c ", 1200000) + "--></svg>",
			"{\"k\":" + big("1", 1200000) + "}",
			"BEGIN:VCARD\nNOTE:" + big("n", 1200000) + "\nEND:VCARD\n",
		}
		for di, d := range docs {
			data := []byte(d)
			for _, lim := range []uint32{0, 1 << 22, uint32(len(data) - 1)} {
				key := fw.InputKey(data[:200], lim, fmt.Sprintf("Detect/big-input-%d", di))
				mk := func() any {
					return c01Case{Kind: fmt.Sprintf("big-input-%d", di), In: append([]byte(nil), data[:200]...), Entry: "big-inputs", InQ: fw.Quote(data, 100)}
				}
				c.Trace(func() (string, any) { return key, mk() })
				c.Guard(key, mk, func() {
					mimetype.SetLimit(lim)
					if mimetype.Detect(data) == nil {
						panic("nil result from Detect")
					}
					if m, _ := mimetype.DetectReader(&c01ChunkReader{b: data, r: r, mode: 4}); m == nil {
						panic("nil result from DetectReader")
					}
				})
				c.Eval(2)
				c.Count("inputs_with_a_token_of_more_than_1_MiB", 1)
			}
		}
		mimetype.SetLimit(3072)
	case "huge-limit-reader":
		// DetectReader / DetectFile with the largest limits (the reader path sizes a buffer
		// from the limit: 2^32-1 must not wrap around). One call at a time; untouched pages
		// of the buffer cost nothing. Counted as skipped on machines with little memory.
		if memAvailableGiB() < 24 {
			c.Count("huge_limit_reader_cases_skipped_low_memory", 1)
			c.Eval(1)
			return
		}
		f := filepath.Join(os.TempDir(), fmt.Sprintf("verif-c01-huge-%d.bin", os.Getpid()))
		defer os.Remove(f)
		for di, data := range [][]byte{seeds[0], []byte("plain text"), {}, []byte("\x89PNG\x0d\x0a\x1a\x0a\x00\x00\x00\x0dIHDR")} {
			if c.Tier != "thorough" && di >= 3 {
				break
			}
			if len(data) > 4096 {
				data = data[:4096]
			}
			os.WriteFile(f, data, 0o600)
			lims := []uint32{1<<32 - 2, 1<<32 - 1}
			if c.Tier == "thorough" {
				lims = []uint32{1 << 31, 1<<31 + 1, 1<<32 - 4096, 1<<32 - 2, 1<<32 - 1}
			}
			for li, lim := range lims {
				for _, entry := range []string{"DetectReader", "DetectFile"} {
					if c.Tier != "thorough" && entry == "DetectFile" && (li == 0 || len(data) == 0) {
						continue
					}
					key := fw.InputKey(data, lim, entry+"/huge-limit")
					mk := func() any {
						return c01Case{Kind: "huge-limit-reader", In: append([]byte(nil), data...), Entry: "huge-limit-reader", InQ: fw.Quote(data, 60)}
					}
					c.Trace(func() (string, any) { return key, mk() })
					c.Guard(key, mk, func() {
						mimetype.SetLimit(lim)
						var m *mimetype.MIME
						if entry == "DetectFile" {
							m, _ = mimetype.DetectFile(f)
						} else {
							m, _ = mimetype.DetectReader(&c01ChunkReader{b: data, r: r, mode: 4})
						}
						if m == nil {
							panic("nil result with a huge limit")
						}
					})
					mimetype.SetLimit(3072)
					debug.FreeOSMemory()
					c.Eval(1)
					c.Count("reader_and_file_detections_with_limits_near_2^32", 1)
				}
			}
		}
	case "concurrent-limit":
		// "never panics, never reads outside" also while another goroutine keeps changing
		// the limit (the limit is a process-wide setting that real programs do change):
		// guarded inputs (cap == len, inaccessible page behind) through Detect and DetectReader
		stop := make(chan struct{})
		tdone := make(chan struct{})
		go func() {
			defer close(tdone)
			vals := []uint32{1, 2, 16, 100, 3072, 0, 1 << 20, 7, 511, 4096}
			for i := 0; ; i++ {
				select {
				case <-stop:
					return
				default:
				}
				mimetype.SetLimit(vals[i%len(vals)])
				if i%64 == 0 {
					runtime.Gosched()
				}
			}
		}()
		n := 0
		for rep := 0; rep < 1+b.N; rep++ {
			for _, s := range seeds {
				if len(s) > 4096 {
					s = s[:4096]
				}
				for _, k := range []int{len(s), len(s) / 2, 17, 101, 513} {
					if k > len(s) || k == 0 {
						continue
					}
					data := s[:k]
					key := fw.InputKey(data, 0, "Detect/concurrent-SetLimit")
					mk := func() any {
						return c01Case{Kind: "concurrent-limit", In: append([]byte(nil), data...), Entry: "concurrent-limit", InQ: fw.Quote(data, 100)}
					}
					c.Trace(func() (string, any) { return key, mk() })
					g := st.arena.Place(data)
					c.Guard(key, mk, func() {
						for j := 0; j < 6; j++ {
							if mimetype.Detect(g) == nil {
								panic("nil result from Detect")
							}
						}
						if m, _ := mimetype.DetectReader(&c01ChunkReader{b: g, r: r, mode: 4}); m == nil {
							panic("nil result from DetectReader")
						}
					})
					n += 7
				}
			}
		}
		close(stop)
		<-tdone
		mimetype.SetLimit(3072)
		c.Eval(int64(n))
		c.Count("detections_while_the_limit_was_changing", int64(n))
	case "race-sweep":
		// reduced sweep under the race-detector build (implies checkptr)
		lo, hi := split(len(seeds), b.Idx, b.Of)
		for si, s := range seeds[lo:hi] {
			if len(s) > 2048 {
				s = s[:2048]
			}
			for n := 0; n <= len(s); n += 1 + n/16 {
				st.sweep(c, fmt.Sprintf("seed-%d-prefix-race", lo+si), s[:n], false)
			}
		}
	}
}

func init() {
	fw.Register(&fw.Prop{
		ID:    "C01",
		Level: "exploration",
		Rule: "every input is copied into a guard-page arena (slice ends at an inaccessible page, cap == len) and given to EVERY registered detector directly, to the un-sliced tree walk and to Detect, with limits {0, 1, n-1, n, n+1, 3072, 2^31-1, 2^31, 2^32-1, random}; inputs = every seed at every prefix length (dense to 700, sparse and around 512-byte boundaries beyond), interesting 32-bit values written little/big-endian at the offsets of the first 64 bytes, random mutants / splices / truncations, tokens from a dictionary of the signature packages' literals (read from the tree under test) placed behind each seed's first bytes, and targeted families: hand-built zip local headers (attacker-chosen compressed size, name-length field, 0-7 further headers, every truncation), CRX length pairs that wrap uint32, OLE headers with every interesting sector id x both sector sizes x boundary lengths, Matroska DocType id at the last bytes and at the 4096 boundary with every vint width incl. 0, escape / partial-rune / quote tails, small boxes at every length around their guards, HTML metas / XML prologues that stress the hand-written scanners (the word charset without '=', unterminated quotes, cut tags); a subset also through DetectReader (5 chunk schedules) and DetectFile. " +
			"non-trivial = a detector answered true, or the input is a prefix of a seed that the detector accepts in full; distinct = distinct (detector, answer, log2 length bucket, limit class) tuples.",
		Assumptions: []string{
			"linux/amd64 only; 32-bit int overflow behaviour is not executed",
			"a SIGSEGV on the guard page kills the child; the supervisor pins the input by a traced re-run",
			"non-termination is decided by the supervisor's watchdog (a single case older than 90 s in the traced re-run)",
			"DetectReader allocates `limit` bytes by design: limits above 2^31 are exercised on the byte-slice paths only",
		},
		Plan: func(tier string, seed int64) []fw.Batch {
			var bs []fw.Batch
			bs = append(bs, batches("prefixes", 24, 0, 900)...)
			bs = append(bs, batches("inject", 16, 0, 900)...)
			bs = append(bs, batches("targeted", 7, 0, 900)...)
			bm := batches("bombs", 1, 0, 900)
			bm[0].Env = []string{"GOMAXPROCS=1", "GOGC=off"}
			bs = append(bs, bm...)
			hl := batches("huge-limit-reader", 1, 0, 900)
			hl[0].Slow = true // 4 GiB buffers: no hang verdict from timing
			bs = append(bs, hl...)
			bs = append(bs, batches("big-inputs", 1, 0, 900)...)
			cl := batches("concurrent-limit", 4, 6, 900)
			if tier == "thorough" {
				cl = batches("concurrent-limit", 8, 120, 3000)
			}
			bs = append(bs, cl...)
			if tier == "thorough" {
				rb := batches("race-sweep", 8, 0, 3000)
				for i := range rb {
					rb[i].Race = true
				}
				bs = append(bs, rb...)
			}
			return bs
		},
		Run: c01Run,
		Replay: func(c *fw.Ctx, payload stdjson.RawMessage) {
			var k c01Case
			if err := stdjson.Unmarshal(payload, &k); err != nil {
				fmt.Println("bad payload:", err)
				return
			}
			st := &c01State{t: baseTree(), arena: lib.NewArena(1 << 16), accept: map[int]bool{}}
			switch k.Entry {
			case "bomb":
				c01Run(c, fw.Batch{Kind: "bombs"})
			case "huge-limit-reader":
				c01Run(c, fw.Batch{Kind: "huge-limit-reader"})
			case "big-inputs":
				c01Run(c, fw.Batch{Kind: "big-inputs"})
			case "concurrent-limit":
				fmt.Println("schedules are not deterministic: the concurrent-limit workload is re-run")
				c01Run(c, fw.Batch{Kind: "concurrent-limit", N: 40})
			case "sweep":
				st.sweep(c, k.Kind, k.In, false)
			default:
				st.readerFile(c, k.Kind, k.In)
			}
		},
		Finish: func(a *fw.Agg) error {
			if a.Evals < 10000000 {
				return fmt.Errorf("only %d guarded calls were made", a.Evals)
			}
			t := baseTree()
			var never []string
			for _, n := range t.Nodes[1:] {
				if _, ok := a.Sets["nodes_accepting"][n.MIME+n.Ext]; !ok {
					never = append(never, n.MIME+n.Ext)
				}
			}
			if len(never) > 0 {
				return fmt.Errorf("detectors that never accepted any input of the workload: %v", never)
			}
			return nil
		},
	})
}
