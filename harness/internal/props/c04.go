package props

import (
	"bytes"
	stdjson "encoding/json"
	"fmt"
	"math/rand"
	"os"
	"runtime"
	"runtime/debug"
	"strings"
	"sync"

	"github.com/gabriel-vasile/mimetype"

	"verifharness/internal/fw"
	"verifharness/internal/gen"
	"verifharness/internal/lib"
)

// C04 — detection is a pure function of the examined header.
//
// Every probe carries an expectation that does not come from the process state:
// the leaf (String, Extension) decided by construction / by the oracles of
// C08, C10, C11, C12, C13. Two families of executions are compared with it:
//   fresh     the probe is the first and only detection of a fresh child process
//   history   the probe follows an arbitrary sequence of predecessor detections
//             on the same goroutine with GOMAXPROCS=1 and GC off (so the pooled
//             JSON parser state / CSV reader really are the ones just released)
// fresh == expectation and history == expectation  =>  history == fresh.
// Also: caller buffers are compared before/after and placed in read-only pages,
// detections are repeated, bytes and capacity beyond the limit are varied, and
// the history workload is repeated on many goroutines under the race detector.

type c04Probe struct {
	Name  string `json:"name"`
	In    []byte `json:"in"`
	Limit uint32 `json:"limit"`
	Want  string `json:"want"` // leaf String()|Extension()
}

func pr(name, in string, limit uint32, want string) c04Probe {
	return c04Probe{name, []byte(in), limit, want}
}

func c04FixedProbes() []c04Probe {
	return []c04Probe{
		pr("json-obj", `{"a":1}`, 3072, "application/json|.json"),
		pr("json-arr", `[1,2,3]`, 3072, "application/json|.json"),
		pr("json-gltf-lookalike", `{"a":[1],"asset":{"version":"3.0"}}`, 3072, "application/json|.json"),
		pr("json-type-nope", `{"type":"nope"}`, 3072, "application/json|.json"),
		pr("json-log-arr", `{"log":[1]}`, 3072, "application/json|.json"),
		pr("json-nested-type", `{"a":{"type":"Feature"}}`, 3072, "application/json|.json"),
		pr("geojson", `{"type":"Feature"}`, 3072, "application/geo+json|.geojson"),
		pr("geojson-after-array", `{"x":[1,[2],{"y":[]}],"type":"Point"}`, 3072, "application/geo+json|.geojson"),
		pr("har", `{"log":{"version":"1.2"}}`, 3072, "application/json|.har"),
		pr("har-entries", `{"a":[1],"log":{"x":{"y":1},"entries":[{"z":1}]}}`, 3072, "application/json|.har"),
		pr("gltf", `{"accessors":[1],"asset":{"version":"2.0"}}`, 3072, "model/gltf+json|.gltf"),
		pr("json-cut", `{"a":[1,2,{"b":"c`, 17, "application/json|.json"),
		pr("geojson-cut", `{"type":"Feature","geometry":{"type":"Po`, 40, "application/geo+json|.geojson"),
		pr("csv", "a,b\n1,2\n", 3072, "text/csv|.csv"),
		pr("csv-quoted", "\"a,1\",b\n\"c\",d\n", 3072, "text/csv|.csv"),
		pr("tsv", "x\ty\n1\t2\n", 3072, "text/tab-separated-values|.tsv"),
		pr("csv-cut", "a,b\n1,2\n3,", 11, "text/csv|.csv"),
		pr("ndjson", "{\"a\":1}\n[2]\n", 3072, "application/x-ndjson|.ndjson"),
		pr("ndjson-scalars-first", "1\n{\"a\":1}\n", 3072, "application/x-ndjson|.ndjson"),
		pr("blank-then-scalars", "\n1\n2\n", 3072, "text/plain; charset=utf-8|.txt"),
		pr("blank-lines", "\n\n", 3072, "text/plain; charset=utf-8|.txt"),
		pr("space-then-scalars", " \n1\n\"s\"\n", 3072, "text/plain; charset=utf-8|.txt"),
		pr("scalars-only", "1\n2\n", 3072, "text/plain; charset=utf-8|.txt"),
		pr("not-json", `{"a":1} x`, 3072, "text/plain; charset=utf-8|.txt"),
		pr("not-json-2", `[1,2`, 3072, "text/plain; charset=utf-8|.txt"),
		pr("lone-bracket", `[`, 3072, "text/plain; charset=utf-8|.txt"),
		pr("lone-brace-ws", " {\n", 3072, "text/plain; charset=utf-8|.txt"),
		pr("ragged-csv", "a,b\n1,2,3\n", 3072, "text/plain; charset=utf-8|.txt"),
		pr("plain", "plain text here", 3072, "text/plain; charset=utf-8|.txt"),
		pr("plain-utf8", "caf\xC3\xA9", 3072, "text/plain; charset=utf-8|.txt"),
		pr("plain-latin1", "caf\xE9", 3072, "text/plain; charset=iso-8859-1|.txt"),
		pr("plain-1252", "Wait\x85", 3072, "text/plain; charset=windows-1252|.txt"),
		pr("empty", "", 3072, "text/plain|.txt"),
		pr("html-upper", `<HTML><META CHARSET="ISO-8859-1">`, 3072, "text/html; charset=iso-8859-1|.html"),
		pr("html-pragma-upper", `<html><META HTTP-EQUIV="CONTENT-TYPE" CONTENT="TEXT/HTML; CHARSET=KOI8-R">`, 3072, "text/html; charset=koi8-r|.html"),
		pr("html-utf8", `<html><meta charset="UTF-8">`, 3072, "text/html; charset=utf-8|.html"),
		pr("xml-latin", `<?xml version="1.0" encoding="ISO-8859-1"?><a/>`, 3072, "text/xml; charset=iso-8859-1|.xml"),
		pr("png", "\x89PNG\x0d\x0a\x1a\x0a\x00\x00", 3072, "image/png|.png"),
		pr("zip", "PK\x03\x04\x14\x00\x00\x00", 3072, "application/zip|.zip"),
		pr("binary", "\x00\x01\x02\x03", 3072, "application/octet-stream|"),
		pr("json-limit0", `{"type":"Feature","a":[{"b":[[]]}]}`, 0, "application/geo+json|.geojson"),
		{"deep-closed-9000", []byte(strings.Repeat("[", 9000) + strings.Repeat("]", 9000)), 0, "text/plain; charset=utf-8|.txt"},
		{"deep-unclosed-9000-cut", []byte(strings.Repeat(`{"a":[`, 3000)), 15000, "text/plain; charset=utf-8|.txt"},
		{"tar", c18KnownTar(), 3072, "application/x-tar|.tar"},
		{"json-with-octal-at-148", []byte("[" + strings.Repeat("1,", 73) + "12345670," + strings.Repeat("2,", 200) + "3]"), 3072, "application/json|.json"},
	}
}

type c04Pred struct {
	Name   string
	In     []byte
	Limit  uint32
	Reader bool // through DetectReader with a failing reader
}

func c04Preds() []c04Pred {
	big := []byte("[")
	for len(big) < 1<<20 {
		big = append(big, `{"k":[1,2,3],"s":"x"},`...)
	}
	big = append(big, "1]"...)
	return []c04Pred{
		{"geo-sat", []byte(`{"type":"Feature","x":[1,2,{"a":1}]}`), 3072, false},
		{"geo-unsat", []byte(`{"type":"nope","x":[1,2,{"a":1}]}`), 3072, false},
		{"har-sat", []byte(`{"log":{"version":"1.2"}}`), 3072, false},
		{"gltf-sat", []byte(`{"asset":{"version":"2.0"}}`), 3072, false},
		{"abort-in-key", []byte(`{"type":"Feature","a":{"b":{"c":[1,2,{"d`), 3072, false},
		{"abort-after-colon", []byte(`{"type":"Feature","a":{"b":{"c":[1,2,{"d":`), 3072, false},
		{"abort-bad-token", []byte(`{"type":"Feature","a":{"b":[}}`), 3072, false},
		{"abort-in-string", []byte(`{"log":{"version":"1.2","x":"unterminated`), 3072, false},
		{"abort-in-escape", []byte(`["\u12`), 3072, false},
		{"cut-at-limit", []byte(`{"asset":{"version":"2.0"},"k":[1,2,3,4,5,6,7,8,9]}`), 20, false},
		{"bomb-unclosed-6000", bytes.Repeat([]byte("["), 6000), 0, false},
		{"bomb-200", bytes.Repeat([]byte("["), 200), 3072, false},
		{"deep-obj-300", []byte(strings.Repeat(`{"k":`, 300) + "1" + strings.Repeat("}", 300)), 3072, false},
		{"deep-obj-unclosed", []byte(strings.Repeat(`{"type":`, 400)), 3072, false},
		{"array-top", []byte(`[{"type":"Feature"},[1,2],{"log":{"version":1}}]`), 3072, false},
		{"csv-mid-record", []byte("a,b,c\n1,2,3\n\"unterminated,4"), 3072, false},
		{"csv-big", bytes.Repeat([]byte("aaaa,bbbb,cccc\n"), 2000), 0, false},
		{"csv-ragged-early-with-tail", []byte("a,b\n1,2,3\nmore,data\nx,y\n" + strings.Repeat("p,q\n", 50)), 3072, false},
		{"tsv-ragged-early-with-tail", []byte("a\tb\n1\t2\t3\nmore\tdata\n" + strings.Repeat("p\tq\n", 50)), 3072, false},
		{"csv-bad-quote-early", []byte("a,b\n\"x\"y,2\nleft,over\n" + strings.Repeat("1,2\n", 900)), 0, false},
		{"csv-cut", bytes.Repeat([]byte("aaaa,bbbb,cccc\n"), 2000), 100, false},
		{"tsv", []byte("a\tb\n1\t2\n"), 3072, false},
		{"ndjson", []byte("{\"a\":1}\n{\"b\":2}\n"), 3072, false},
		{"ndjson-bad-line", []byte("{\"a\":1}\n{\"b\":\n"), 3072, false},
		{"ndjson-ends-on-array", []byte("1\n[1,2,3]\n"), 3072, false},
		{"huge-json", big, 0, false},
		{"empty", nil, 3072, false},
		{"binary", []byte("\x00\x01\x02\x03"), 3072, false},
		{"html-upper", []byte(`<HTML><META CHARSET="ISO-8859-1">`), 3072, false},
		{"xml", []byte(`<?xml version="1.0" encoding="UTF-16"?><rss>`), 3072, false},
		{"failing-reader", []byte(`{"type":"Feature","a":[1,2,3`), 3072, true},
		{"plain", []byte("hello world"), 3072, false},
	}
}

var seedsC04 [][]byte

func c04RunPred(p c04Pred) {
	mimetype.SetLimit(p.Limit)
	if p.Reader {
		mimetype.DetectReader(&c02Reader{b: p.In, failAt: len(p.In) / 2})
		return
	}
	mimetype.Detect(p.In)
}

func leafOf(m *mimetype.MIME) string { return m.String() + "|" + m.Extension() }

type c04Payload struct {
	Kind    string   `json:"kind"`
	History []string `json:"history"`
	Probe   c04Probe `json:"probe"`
	Note    string   `json:"note"`
}

func poolKey() string {
	st := mimetype.VerifJSONPoolPeek()
	return fmt.Sprintf("ib>0=%v path=%d cap>128=%v tok=%d sat=%v max=%d", st.IB > 0, minInt(st.PathLen, 9), st.PathCap > 128, st.FirstToken, st.QuerySatisfied, st.MaxRecursion)
}

func c04CheckProbe(c *fw.Ctx, kind string, hist []string, p c04Probe, peek bool) {
	pk := ""
	if peek {
		pk = poolKey()
		c.SetAdd("pool_states_seen_before_probe", pk)
	}
	key := fw.InputKey(p.In, p.Limit, "Detect/after:"+strings.Join(hist, ","))
	pl := c04Payload{Kind: kind, History: hist, Probe: p}
	c.Trace(func() (string, any) { return key, pl })
	cp := append([]byte(nil), p.In...)
	var got string
	var gotChain lib.Chain
	if !c.Guard(key, func() any { return pl }, func() {
		m := lib.Detect(p.In, p.Limit)
		got = leafOf(m)
		gotChain = lib.ChainOf(m)
	}) {
		return
	}
	c.Eval(1)
	if !bytes.Equal(cp, p.In) {
		c.Violate("caller-buffer-modified", key, fmt.Sprintf("Detect changed the caller's buffer (probe %s)", p.Name), pl)
		copy(p.In, cp)
	}
	if got != p.Want && strings.HasPrefix(p.Name, "gen-") && c04HigherPriority(c, p, gotChain, got, key, pl) {
		// A randomly generated probe happens to carry the signature of a format that is
		// tried before the text formats (e.g. a first cell "drpm…" is a delta-RPM
		// magic number): the construction oracle does not apply to these bytes. The
		// result is still compared with a second detection behind a neutral predecessor.
		return
	}
	if got != p.Want {
		c.Violate("history-dependent-result", key, fmt.Sprintf("probe %s %s (limit %d) gives %s after the detections [%s]; its expectation (and its result as the first detection of a fresh process) is %s", p.Name, fw.Quote(p.In, 60), p.Limit, got, strings.Join(hist, ", "), p.Want), pl)
	}
	if peek && len(hist) > 0 {
		dirty := !strings.HasPrefix(pk, "ib>0=false path=0 cap>128=false tok=0 sat=false")
		if dirty {
			c.Distinct(fmt.Sprintf("%s|%s|%s", strings.Join(hist, ">"), p.Name, pk))
			c.Count("probes_after_dirty_pool_state", 1)
		}
	}
}

// c04GenProbe draws a generated probe with an oracle expectation (C10 objects, C13 tables).
func c04GenProbe(r *rand.Rand) c04Probe {
	switch r.Intn(3) {
	case 0:
		n := 1 + r.Intn(5)
		var ms []jmem
		for len(ms) < n {
			if r.Intn(3) == 0 {
				ms = append(ms, c10Decider(r, r.Intn(3)))
			} else {
				m, _ := c10Sibling(r, 1)
				ms = append(ms, m)
			}
		}
		d, _, _ := c10Serialize(ms, c10Layouts[r.Intn(len(c10Layouts))])
		t, e, _, _ := c10Verdict(ms)
		return c04Probe{"gen-json-object", d, 0, t + "|" + e}
	case 1:
		delim := byte(',')
		want := "text/csv|.csv"
		if r.Intn(2) == 0 {
			delim, want = '\t', "text/tab-separated-values|.tsv"
		}
		tb := c13MakeTable(r, delim, 2+r.Intn(4), 2+r.Intn(3), false, false, true, 0, false)
		return c04Probe{"gen-table", tb.data, 0, want}
	default:
		o := gen.JSONOpts{MaxDepth: 3, MaxItems: 3, WS: 0, NoSvg: true, AsciiOnly: true}
		a := bytes.TrimSpace(gen.JSONDoc(r, o))
		bdoc := bytes.TrimSpace(gen.JSONDoc(r, o))
		d := append(append(append([]byte{}, a...), '\n'), bdoc...)
		d = append(d, '\n')
		return c04Probe{"gen-ndjson", d, 0, "application/x-ndjson|.ndjson"}
	}
}

func c04Run(c *fw.Ctx, b fw.Batch) {
	probes := c04FixedProbes()
	preds := c04Preds()
	r := c.Rand
	switch b.Kind {
	case "fresh":
		// the probe is the first and only detection of this process
		p := probes[b.Idx]
		c04CheckProbe(c, "fresh-process", nil, p, false)
		c.Count("fresh_process_probes", 1)
	case "histories":
		seedsC04 = lib.Seeds()
		runtime.GOMAXPROCS(1)
		debug.SetGCPercent(-1)
		if b.Idx == 0 {
			// every ordered pair of predecessor kinds, every fixed probe
			for i, a := range preds {
				for j, bb := range preds {
					if (a.Name == "huge-json" || bb.Name == "huge-json") && (i+j)%5 != 0 {
						continue
					}
					for _, p := range probes {
						c04RunPred(a)
						c04RunPred(bb)
						c04CheckProbe(c, "pair", []string{a.Name, bb.Name}, p, true)
					}
				}
				runtime.GC()
			}
			return
		}
		for it := 0; it < b.N; it++ {
			k := 1 + r.Intn(6)
			var h []string
			for j := 0; j < k; j++ {
				p := preds[r.Intn(len(preds))]
				if p.Name == "huge-json" && r.Intn(4) != 0 {
					p = preds[0]
				}
				if r.Intn(5) == 0 { // any corpus seed, cut at a random limit, as predecessor
					sd := seedsC04[r.Intn(len(seedsC04))]
					p = c04Pred{Name: fmt.Sprintf("seed#%d", r.Intn(1<<30)), In: sd, Limit: uint32(r.Intn(len(sd) + 2))}
				}
				h = append(h, p.Name)
				cp := append([]byte(nil), p.In...)
				c04RunPred(p)
				if !bytes.Equal(cp, p.In) {
					c.Violate("caller-buffer-modified", "pred "+p.Name, "a predecessor detection changed the caller's buffer: "+p.Name, c04Payload{Kind: "pred", History: h})
				}
			}
			var p c04Probe
			if r.Intn(3) == 0 {
				p = c04GenProbe(r)
			} else {
				p = probes[r.Intn(len(probes))]
			}
			c04CheckProbe(c, "history", h, p, true)
			if it%2000 == 1999 {
				runtime.GC()
			}
			if c.WantSample() && r.Intn(3000) == 0 {
				c.Sample(map[string]any{"history": h, "probe": p.Name, "probe_input": fw.Quote(p.In, 60), "limit": p.Limit, "expected_and_observed": p.Want, "pooled_parser_state_before_probe": poolKey()})
			}
		}
	case "immutable":
		// read-only placement (a write faults), repetition, tail / capacity poison
		seeds := lib.Seeds()
		var ins [][]byte
		ins = append(ins, seeds...)
		for _, p := range probes {
			ins = append(ins, p.In)
		}
		for _, p := range preds {
			if len(p.In) < 200000 {
				ins = append(ins, p.In)
			}
		}
		if b.Idx == 0 {
			// files whose reported size differs from their content (procfs): the answer is a
			// function of the bytes, not of what stat says
			for _, pf := range []string{"/proc/version", "/proc/filesystems", "/proc/cmdline", "/proc/self/comm"} {
				content, err := os.ReadFile(pf)
				if err != nil || len(content) == 0 {
					continue
				}
				for _, lim := range []uint32{0, 16, 3072} {
					want := leafOf(lib.Detect(content, lim))
					mimetype.SetLimit(lim)
					m, derr := mimetype.DetectFile(pf)
					c.Eval(1)
					if derr != nil || leafOf(m) != want {
						c.Violate("depends-on-more-than-the-bytes", fw.InputKey(content, lim, "DetectFile/"+pf), fmt.Sprintf("DetectFile(%s) gives %s (%v), the same %d bytes through Detect give %s (limit %d)", pf, leafOf(m), derr, len(content), want, lim), c04Payload{Kind: "procfs", Probe: c04Probe{Name: pf, In: content, Limit: lim, Want: want}})
					}
				}
			}
		}
		if b.Idx == 0 {
			// repeating a detection never changes the answer: documents whose deciding element
			// offers several candidates (meta elements with 2-5 attributes in every order,
			// duplicated attributes, several metas, XML declarations with pseudo-attributes in
			// odd orders) are detected 40 times each
			attrs := []string{`charset="iso-8859-1"`, `content="text/html; charset=koi8-r"`, `http-equiv="content-type"`, `name="description"`, `content="some page"`, `charset=windows-1251`, `http-equiv=refresh`, `CONTENT="text/html;charset=big5"`, `data-charset="x"`, `charset=""`}
			var docs [][]byte
			for i := 0; i < 260; i++ {
				var sb strings.Builder
				sb.WriteString("<html><head>")
				for m := 1 + r.Intn(2); m > 0; m-- {
					sb.WriteString("<meta")
					for k := 2 + r.Intn(4); k > 0; k-- {
						sb.WriteString(" " + attrs[r.Intn(len(attrs))])
					}
					sb.WriteString(">")
				}
				sb.WriteString("<title>t</title></head><body>caf\xe9</body></html>")
				docs = append(docs, []byte(sb.String()))
			}
			for _, x := range []string{`<?xml version="1.0" encoding="koi8-r" standalone="yes" encoding="utf-16"?><a/>`, `<?xml encoding="latin1" version="1.0" encoding="utf-8"?><a/>`, `<?xml version='1.0' standalone='no' encoding='big5'?><a/>`} {
				docs = append(docs, []byte(x))
			}
			for _, x := range docs {
				key := fw.InputKey(x, 3072, "Detect/repeated")
				pl := c04Payload{Kind: "repeat", Probe: c04Probe{Name: "input", In: x, Limit: 3072}}
				c.Trace(func() (string, any) { return key, pl })
				first, diff := "", ""
				ok := c.Guard(key, func() any { return pl }, func() {
					first = leafOf(lib.Detect(x, 3072))
					for k := 0; k < 40 && diff == ""; k++ {
						var got string
						if k%4 == 3 {
							mimetype.SetLimit(3072)
							m, _ := mimetype.DetectReader(bytes.NewReader(x))
							got = leafOf(m)
						} else {
							got = leafOf(lib.Detect(x, 3072))
						}
						if got != first {
							diff = fmt.Sprintf("repetition %d gives %s, the first detection gave %s", k+1, got, first)
						}
					}
				})
				c.Eval(41)
				c.Count("documents_detected_40_times", 1)
				if ok && diff != "" {
					c.Violate("repeat-differs", key, "repeating the detection of the same bytes changes the answer: "+diff+"; input "+fw.Quote(x, 160), pl)
				}
				c.Distinct("repeat|" + first)
			}
		}
		if b.Idx == 1 {
			// (1) a result is complete when Detect returns: the caller may re-use its buffer at once;
			// what the accessors say later must not depend on what the buffer holds then
			texts := [][]byte{[]byte("<html><head><meta charset=\"koi8-r\"></head><body>x"), []byte("caf\xe9 latin-1 text"), []byte("<?xml version=\"1.0\" encoding=\"big5\"?><a/>"), []byte("Wait\x85 windows text"), []byte("\xef\xbb\xbfbom text"), []byte("{\"type\":\"Feature\"}"), []byte("a,b\n1,2\n")}
			for _, x := range texts {
				for _, other := range texts {
					buf := make([]byte, 256)
					n := copy(buf, x)
					want := leafOf(lib.Detect(append([]byte(nil), x...), 3072))
					key := fw.InputKey(x, 3072, "Detect/buffer-reused-before-String")
					pl := c04Payload{Kind: "late-accessors", Probe: c04Probe{Name: "input", In: x, Limit: 3072, Want: want}}
					var got string
					if !c.Guard(key, func() any { return pl }, func() {
						m := lib.Detect(buf[:n], 3072)
						for i := range buf {
							buf[i] = 0
						}
						copy(buf, other) // the caller reads the next file into the same buffer
						got = leafOf(m)
					}) {
						continue
					}
					c.Eval(1)
					c.Count("results_read_after_the_buffer_was_reused", 1)
					if got != want {
						c.Violate("depends-on-more-than-the-bytes", key, fmt.Sprintf("the result of Detect reads %s when its accessors are first called after the caller re-used the input buffer (then holding %s); the same bytes give %s", got, fw.Quote(other, 30), want), pl)
					}
				}
			}
			// (1a) a CR as the last examined byte with / without an LF right behind the limit
			for _, head := range []string{"a,b\r\nc,d\r", "{\"a\":1}\r", "x\ty\r\n1\t2\r", "plain\r", "[1,2]\r\n[3]\r", "<html>\r"} {
				L := uint32(len(head))
				want := leafOf(lib.Detect([]byte(head), L))
				for _, tail := range []string{"\n", "\nmore,rows\r\n", "x", "\r\n", "\n\x00"} {
					x := []byte(head + tail)
					got := leafOf(lib.Detect(x, L))
					mimetype.SetLimit(L)
					m, _ := mimetype.DetectReader(bytes.NewReader(x))
					c.Eval(2)
					c.Count("crlf_split_by_the_limit_cases", 1)
					if got != want || leafOf(m) != want {
						c.Violate("depends-on-bytes-beyond-limit", fw.InputKey(x, L, "Detect/cr-at-limit"), fmt.Sprintf("the first %d bytes %s give %s; followed by %s the same limit gives %s (Detect) / %s (DetectReader)", L, fw.Quote([]byte(head), 40), want, fw.Quote([]byte(tail), 20), got, leafOf(m)), c04Payload{Kind: "tail-poison", Probe: c04Probe{Name: "cr-at-limit", In: x, Limit: L}})
					}
				}
			}
			// (1b) the reader path with limits just above 1 MiB: bytes beyond the limit never change the answer
			for _, L := range []int{1<<20 + 1, 1<<20 + 4097, 3<<19 + 5} {
				head := bytes.Repeat([]byte("a line of text\n"), L/15+1)[:L]
				for ti, tail := range [][]byte{bytes.Repeat([]byte{0x00, 0x01}, 700000), bytes.Repeat([]byte("more text\n"), 150000), {}} {
					x := append(append([]byte{}, head...), tail...)
					want := leafOf(lib.Detect(head, uint32(L)))
					mimetype.SetLimit(uint32(L))
					m, derr := mimetype.DetectReader(bytes.NewReader(x))
					m2, _ := mimetype.DetectReader(&oddChunks{b: x})
					c.Eval(2)
					c.Count("reader_detections_with_limits_above_1_MiB", 1)
					if derr != nil || leafOf(m) != want || leafOf(m2) != want {
						c.Violate("depends-on-bytes-beyond-limit", fw.InputKey(x[:64], uint32(L), fmt.Sprintf("DetectReader/tail-%d", ti)), fmt.Sprintf("with limit %d the first %d bytes give %s through Detect; DetectReader on the same bytes followed by %d more gives %s / %s (%v)", L, L, want, len(tail), leafOf(m), leafOf(m2), derr), c04Payload{Kind: "gomaxprocs", Probe: c04Probe{Name: "reader-tail", Limit: uint32(L)}})
					}
				}
			}
			// (2) the answer does not depend on GOMAXPROCS: inputs of 1 MiB and more whose deciding
			// byte is among the last ones
			old := runtime.GOMAXPROCS(0)
			for _, size := range []int{1 << 20, 1<<20 + 5, 1<<20 + 13, 3<<20 + 7} {
				for _, tail := range [][]byte{{0x00}, {0x01, 'x'}, []byte("x"), {0xE9}, []byte("\x00xxxxxxxxxxxx")} {
					x := append(bytes.Repeat([]byte("a line of text\n"), size/15+1)[:size], tail...)
					var res []string
					for _, p := range []int{1, 2, 3, 7, 16} {
						runtime.GOMAXPROCS(p)
						res = append(res, leafOf(lib.Detect(x, 0)))
					}
					runtime.GOMAXPROCS(old)
					c.Eval(5)
					c.Count("inputs_detected_under_5_gomaxprocs_values", 1)
					for i := range res {
						if res[i] != res[0] {
							c.Violate("depends-on-more-than-the-bytes", fw.InputKey(x[len(x)-64:], 0, "Detect/gomaxprocs"), fmt.Sprintf("a %d-byte input ending in %s gives %s with GOMAXPROCS=1 and %s with GOMAXPROCS=%d", len(x), fw.Quote(tail, 20), res[0], res[i], []int{1, 2, 3, 7, 16}[i]), c04Payload{Kind: "gomaxprocs", Probe: c04Probe{Name: fmt.Sprint(size), In: tail}})
							break
						}
					}
				}
			}
		}
		lo, hi := split(len(ins), b.Idx, b.Of)
		for _, x := range ins[lo:hi] {
			if len(x) > 20000 {
				x = x[:20000]
			}
			for _, lim := range []uint32{0, 3072, uint32(len(x)), uint32(len(x) / 2), 512, 100} {
				key := fw.InputKey(x, lim, "Detect/read-only")
				pl := c04Payload{Kind: "read-only", Probe: c04Probe{Name: "input", In: x, Limit: lim}}
				c.Trace(func() (string, any) { return key, pl })
				ro := lib.NewROBuf(x)
				var first, second, viaReader string
				ok := c.Guard(key, func() any { return pl }, func() {
					first = leafOf(lib.Detect(ro.B, lim))
					second = leafOf(lib.Detect(ro.B, lim))
					mimetype.SetLimit(lim)
					m, _ := mimetype.DetectReader(bytes.NewReader(ro.B))
					viaReader = leafOf(m)
				})
				c.Eval(3)
				if ok && (first != second || first != viaReader) {
					c.Violate("repeat-differs", key, fmt.Sprintf("repeating the detection of the same read-only input gives %s, then %s, then %s through a reader (limit %d)", first, second, viaReader, lim), pl)
				}
				ro.Free()
				c.Count("read_only_inputs_detected", 1)
				// tail / capacity poison: same first L bytes, different bytes and capacity beyond
				if lim > 0 && int(lim) <= len(x) {
					h := x[:lim]
					for k, tail := range [][]byte{{0x00, 0x01, 0x02}, []byte("\n{\"type\":\"Feature\"}\n"), []byte(",,,,\"\n\n"), bytes.Repeat([]byte{0xFF}, 300), []byte("]}]}]}")} {
						buf := make([]byte, 0, len(h)+len(tail)+16)
						buf = append(append(buf, h...), tail...)
						var a1, a2 string
						pl2 := c04Payload{Kind: "tail-poison", Probe: c04Probe{Name: fmt.Sprintf("tail-%d", k), In: buf, Limit: lim}}
						if c.Guard(key, func() any { return pl2 }, func() {
							a1 = leafOf(lib.Detect(buf, lim))       // longer input, same examined header
							a2 = leafOf(lib.Detect(buf[:lim], lim)) // exact header, spare capacity holds the poison
						}) {
							c.Eval(2)
							if a1 != first || a2 != first {
								c.Violate("depends-on-bytes-beyond-limit", fw.InputKey(buf, lim, "Detect/tail"), fmt.Sprintf("with limit %d the result is %s for the original, %s with a different tail, %s with the tail only in the spare capacity", lim, first, a1, a2), pl2)
							}
							c.Distinct(fmt.Sprintf("tail|%d|%s", k, first))
						}
					}
				}
			}
		}
	case "limit-toggle":
		// While detections run, another goroutine keeps switching the limit between
		// two values under which the probe has the SAME sequential answer: whichever
		// limit a detection uses, the answer must be that one (the result depends only
		// on header, limit and formats - never on a mixture of two limits).
		type tp struct {
			in     []byte
			v1, v2 uint32
			want   string
		}
		var tps []tp
		o := gen.JSONOpts{MaxDepth: 3, MaxItems: 5, WS: 1, NoSvg: true, AsciiOnly: true}
		big := []byte("[")
		for len(big) < 7000 {
			big = append(append(big, gen.JSONDoc(r, o)...), ',')
		}
		big = append(big, "1]"...)
		csvb := bytes.Repeat([]byte("alpha,beta,gamma\n"), 500)
		var nd []byte
		for len(nd) < 6000 {
			nd = append(append(nd, bytes.TrimSpace(gen.JSONDoc(r, gen.JSONOpts{MaxDepth: 2, MaxItems: 3, NoSvg: true, AsciiOnly: true}))...), '\n')
		}
		for _, x := range [][]byte{big, csvb, nd} {
			for _, pair := range [][2]uint32{{1024, 0}, {3072, 65536}, {500, 6000}, {2000, 1 << 20}, {4096, 0}} {
				a, bb := leafOf(lib.Detect(x, pair[0])), leafOf(lib.Detect(x, pair[1]))
				if a == bb {
					tps = append(tps, tp{x, pair[0], pair[1], a})
				}
			}
		}
		if len(tps) < 6 {
			panic("verif harness: too few limit-insensitive probes")
		}
		for round := 0; round < b.N; round++ {
			t := tps[round%len(tps)]
			stop := make(chan struct{})
			var tw sync.WaitGroup
			tw.Add(1)
			go func() {
				defer tw.Done()
				for i := 0; ; i++ {
					select {
					case <-stop:
						return
					default:
					}
					if i%2 == 0 {
						mimetype.SetLimit(t.v1)
					} else {
						mimetype.SetLimit(t.v2)
					}
				}
			}()
			var wg sync.WaitGroup
			for g := 0; g < 6; g++ {
				wg.Add(1)
				go func(g int) {
					defer wg.Done()
					for k := 0; k < 150; k++ {
						var got string
						if (g+k)%3 == 0 {
							m, _ := mimetype.DetectReader(bytes.NewReader(t.in))
							got = leafOf(m)
						} else {
							got = leafOf(mimetype.Detect(t.in))
						}
						c.Eval(1)
						if got != t.want {
							c.Violate("result-matches-no-limit", fw.InputKey(t.in, t.v1, fmt.Sprintf("Detect/limit-toggle-%d-%d", t.v1, t.v2)), fmt.Sprintf("while the limit alternates between %d and %d (the input gives %s under both) a detection returned %s", t.v1, t.v2, t.want, got), c04Payload{Kind: "limit-toggle", Probe: c04Probe{Name: "limit-toggle", In: t.in, Limit: t.v1, Want: t.want}, Note: fmt.Sprint(t.v2)})
							return
						}
					}
				}(g)
			}
			wg.Wait()
			close(stop)
			tw.Wait()
			c.Count("limit_toggle_rounds", 1)
			c.Distinct(fmt.Sprintf("toggle|%d|%d|%s", t.v1, t.v2, t.want))
		}
		mimetype.SetLimit(3072)
	case "concurrent":
		// the history workload on many goroutines (pools shared across Ps), race build
		var wg sync.WaitGroup
		ng := 12
		for g := 0; g < ng; g++ {
			wg.Add(1)
			gr := rand.New(rand.NewSource(r.Int63()))
			go func(g int) {
				defer wg.Done()
				for it := 0; it < b.N; it++ {
					k := 1 + gr.Intn(3)
					var h []string
					for j := 0; j < k; j++ {
						p := preds[gr.Intn(len(preds))]
						if p.Name == "huge-json" || p.Name == "csv-big" || p.Limit != 3072 {
							p = preds[gr.Intn(4)]
						}
						h = append(h, p.Name)
						mimetype.Detect(p.In) // limit stays 3072 in this batch: no SetLimit while others run
					}
					p := probes[gr.Intn(len(probes))]
					if p.Limit != 3072 {
						continue
					}
					got := leafOf(mimetype.Detect(p.In))
					c.Eval(1)
					if got != p.Want {
						c.Violate("history-dependent-result", fw.InputKey(p.In, p.Limit, "Detect/concurrent"), fmt.Sprintf("probe %s gives %s while %d goroutines detect concurrently; expectation %s", p.Name, got, ng, p.Want), c04Payload{Kind: "concurrent", History: h, Probe: p})
					}
				}
			}(g)
		}
		mimetype.SetLimit(3072)
		wg.Wait()
		c.Count("concurrent_probe_rounds", int64(ng*b.N))
		c.Distinct(fmt.Sprintf("concurrent|%d", b.Idx))
	}
}

func init() {
	fw.Register(&fw.Prop{
		ID:    "C04",
		Level: "exploration",
		Rule: "probes (45 fixed + generated JSON objects / tables / NDJSON, each with an expectation decided by construction: JSON sub-type family, cut JSON, CSV/TSV/NDJSON, blank-line texts, texts of every charset class, HTML/XML with upper-case declarations, binaries) are detected (a) as the first and only detection of a fresh process (one process per probe) and (b) after histories of 1-6 predecessor detections drawn from 32 kinds (satisfied / unsatisfied sub-type queries, parses aborted in a key / after a colon / in a string / in an escape / on a bad token, cut at the limit, nesting bombs with path stacks > 128, deep objects, CSV readers left mid-record, 1 MiB inputs, a failing reader, empty, binary) with GOMAXPROCS=1 and GC off; EVERY ordered pair of predecessor kinds x every fixed probe is run; the pooled parser state seen just before each probe is recorded through the pool-peek hook. Every seed / probe / predecessor input is also detected from read-only pages (a write faults), three times (twice directly, once through a reader), and with 5 different tails / spare-capacity contents beyond the limit. The history workload is repeated on 12 goroutines under the race detector; in further rounds a goroutine keeps switching the limit between two values under which a long JSON / CSV / NDJSON input has the same sequential answer while 6 goroutines detect it (the answer must be that one). " +
			"non-trivial = the pooled parser state observed before the probe was dirty (non-zero inspected bytes / path / token / satisfied flag); distinct = distinct (history, probe, pool state) tuples and (tail kind, result) pairs.",
		Assumptions: []string{
			"sync.Pool may drop objects: reuse is observed (pool-peek evidence), not forced; under -race pools drop at random",
			"probe expectations come from construction and from the C08/C10/C11/C12/C13 oracles, not from the process under test",
			"the concurrent batch keeps the limit constant (concurrent SetLimit is C06)",
			"a generated probe whose random bytes happen to carry the signature of a format tried before the text formats (first cell \"drpm…\" = delta RPM) is outside the construction oracle: it is accepted only if every detector on the reported path accepts the bytes on its own, and is then detected a second time behind a neutral predecessor (results must agree)",
		},
		Plan: func(tier string, seed int64) []fw.Batch {
			var bs []fw.Batch
			n, nc := 25000, 300
			if tier == "thorough" {
				n, nc = 600000, 6000
			}
			hb := batches("histories", 12, n, 3000)
			for i := range hb {
				hb[i].Env = []string{"GOMAXPROCS=1", "GOGC=off"}
			}
			bs = append(bs, hb...)
			bs = append(bs, batches("immutable", 6, 0, 3000)...)
			for i := range c04FixedProbes() {
				bs = append(bs, fw.Batch{Name: fmt.Sprintf("fresh-%d", i), Kind: "fresh", Idx: i, TimeoutS: 300})
			}
			cb := batches("concurrent", 2, nc, 3000)
			for i := range cb {
				cb[i].Race = true
			}
			bs = append(bs, cb...)
			nt := 40
			if tier == "thorough" {
				nt = 1500
			}
			tb := batches("limit-toggle", 2, nt, 3000)
			tb[1].Race = true
			bs = append(bs, tb...)
			return bs
		},
		Run: c04Run,
		Replay: func(c *fw.Ctx, payload stdjson.RawMessage) {
			var p c04Payload
			if err := stdjson.Unmarshal(payload, &p); err != nil {
				fmt.Println("bad payload:", err)
				return
			}
			runtime.GOMAXPROCS(1)
			debug.SetGCPercent(-1)
			preds := map[string]c04Pred{}
			for _, q := range c04Preds() {
				preds[q.Name] = q
			}
			switch p.Kind {
			case "limit-toggle":
				c04Run(c, fw.Batch{Kind: "limit-toggle", N: 200})
			case "late-accessors", "gomaxprocs":
				c04Run(c, fw.Batch{Kind: "immutable", Idx: 1, Of: 1000})
			case "repeat":
				first := leafOf(lib.Detect(p.Probe.In, p.Probe.Limit))
				for k := 0; k < 400; k++ {
					if got := leafOf(lib.Detect(p.Probe.In, p.Probe.Limit)); got != first {
						c.Violate("repeat-differs", "replay", fmt.Sprintf("repetition %d gives %s, the first detection gave %s", k+1, got, first), p)
						break
					}
				}
			case "tail-poison", "read-only":
				a := leafOf(lib.Detect(p.Probe.In[:minInt(len(p.Probe.In), int(p.Probe.Limit))], p.Probe.Limit))
				bb := leafOf(lib.Detect(p.Probe.In, p.Probe.Limit))
				if a != bb {
					c.Violate("depends-on-bytes-beyond-limit", "replay", a+" vs "+bb, p)
				}
			default:
				for _, h := range p.History {
					c04RunPred(preds[h])
				}
				c04CheckProbe(c, p.Kind, p.History, p.Probe, true)
			}
		},
		Finish: func(a *fw.Agg) error {
			if a.SetSize("pool_states_seen_before_probe") < 5 || a.Counters["probes_after_dirty_pool_state"] < 1000 {
				return fmt.Errorf("pooled state was rarely observed dirty before probes (%d distinct states, %d dirty probes): reuse not exercised", a.SetSize("pool_states_seen_before_probe"), a.Counters["probes_after_dirty_pool_state"])
			}
			if a.Counters["fresh_process_probes"] < int64(len(c04FixedProbes())) {
				return fmt.Errorf("only %d fresh-process probes ran", a.Counters["fresh_process_probes"])
			}
			return nil
		},
	})
}

// c04HigherPriority reports whether the result of a generated probe is explained
// by a format with pinned priority over the text formats whose own detector
// accepts the probe's bytes. The construction oracle then says nothing about
// these bytes; history independence is still decided by detecting the same bytes
// again behind a neutral predecessor.
func c04HigherPriority(c *fw.Ctx, p c04Probe, ch lib.Chain, got, key string, pl c04Payload) bool {
	parts := strings.SplitN(p.Want, "|", 2)
	if len(parts) != 2 {
		return false
	}
	t := baseTree()
	v, why := familyOrException(t, ch, parts[0], parts[1])
	if v != "exception" {
		return false
	}
	path := t.PathOfChain(ch)
	if len(path) < 2 {
		return false
	}
	hdr := p.In
	if p.Limit > 0 && len(hdr) > int(p.Limit) {
		hdr = hdr[:p.Limit]
	}
	for _, id := range path[1:] {
		if !t.Nodes[id].Det(hdr, p.Limit) {
			return false // the reported format does not accept these bytes: not explained
		}
	}
	c.Count("generated_probes_carrying_a_higher_priority_signature", 1)
	c.SetAdd("generated_probe_exception_formats", why)
	lib.Detect([]byte("plain text"), 3072)
	again := leafOf(lib.Detect(p.In, p.Limit))
	if again != got {
		c.Violate("history-dependent-result", key, fmt.Sprintf("probe %s %s (limit %d) gives %s after the detections [%s] and %s behind a plain-text detection", p.Name, fw.Quote(p.In, 60), p.Limit, got, strings.Join(pl.History, ", "), again), pl)
	}
	return true
}
