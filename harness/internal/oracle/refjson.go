// Package oracle holds the independent reference models (relaxed JSON recogniser, …).
package oracle

type Status int

const (
	Fail       Status = iota // not a prefix of any relaxed document
	Incomplete               // viable prefix, input ran out
	Complete                 // a complete value was recognised ending at returned offset
)

type rec struct {
	b     []byte
	depth int
	// final: the input is known to be complete, so a number token ending at
	// the end of the input is finished rather than extensible.
	final bool
}

func isWS(c byte) bool { return c == ' ' || c == '\t' || c == '\r' || c == '\n' }

func (r *rec) ws(i int) int {
	for i < len(r.b) && isWS(r.b[i]) {
		i++
	}
	return i
}

// value recognises ws value ws starting at i.
func (r *rec) value(i int, lvl int) (Status, int) {
	i = r.ws(i)
	if i >= len(r.b) {
		return Incomplete, i
	}
	var st Status
	switch c := r.b[i]; {
	case c == '"':
		st, i = r.str(i + 1)
	case c == '[':
		st, i = r.array(i+1, lvl+1)
	case c == '{':
		st, i = r.object(i+1, lvl+1)
	case c == 't':
		st, i = r.lit(i, "true")
	case c == 'f':
		st, i = r.lit(i, "false")
	case c == 'n':
		st, i = r.lit(i, "null")
	default:
		st, i = r.num(i)
	}
	if st != Complete {
		return st, i
	}
	return Complete, r.ws(i)
}

func (r *rec) lit(i int, s string) (Status, int) {
	for k := 0; k < len(s); k++ {
		if i+k >= len(r.b) {
			return Incomplete, i + k
		}
		if r.b[i+k] != s[k] {
			return Fail, i + k
		}
	}
	return Complete, i + len(s)
}

func isNumCh(c byte) bool {
	return c >= '0' && c <= '9' || c == '.' || c == 'e' || c == 'E' || c == '+' || c == '-'
}

// num: liberal number token: maximal run of number characters with >= 1 digit.
func (r *rec) num(i int) (Status, int) {
	j := i
	digits := 0
	for j < len(r.b) && isNumCh(r.b[j]) {
		if r.b[j] >= '0' && r.b[j] <= '9' {
			digits++
		}
		j++
	}
	if j == i {
		return Fail, i
	}
	if j == len(r.b) && !(r.final && digits > 0) {
		return Incomplete, j // could still be extended
	}
	if digits == 0 {
		return Fail, j
	}
	return Complete, j
}

func isHex(c byte) bool {
	return c >= '0' && c <= '9' || c >= 'a' && c <= 'f' || c >= 'A' && c <= 'F'
}

func (r *rec) str(i int) (Status, int) {
	for i < len(r.b) {
		c := r.b[i]
		i++
		switch c {
		case '"':
			return Complete, i
		case '\\':
			if i >= len(r.b) {
				return Incomplete, i
			}
			e := r.b[i]
			i++
			switch e {
			case '"', '\\', '/', 'b', 'f', 'n', 'r', 't':
			case 'u':
				for k := 0; k < 4; k++ {
					if i >= len(r.b) {
						return Incomplete, i
					}
					if !isHex(r.b[i]) {
						return Fail, i
					}
					i++
				}
			default:
				return Fail, i
			}
		}
	}
	return Incomplete, i
}

func (r *rec) array(i int, lvl int) (Status, int) {
	i = r.ws(i)
	if i >= len(r.b) {
		return Incomplete, i
	}
	if r.b[i] == ']' {
		return Complete, i + 1
	}
	for {
		st, j := r.value(i, lvl)
		if st != Complete {
			return st, j
		}
		i = j
		if i >= len(r.b) {
			return Incomplete, i
		}
		switch r.b[i] {
		case ']':
			return Complete, i + 1
		case ',':
			i = r.ws(i + 1)
			if i >= len(r.b) {
				return Incomplete, i
			}
			if r.b[i] == ']' { // one trailing comma tolerated
				return Complete, i + 1
			}
		default:
			return Fail, i
		}
	}
}

func (r *rec) object(i int, lvl int) (Status, int) {
	i = r.ws(i)
	if i >= len(r.b) {
		return Incomplete, i
	}
	if r.b[i] == '}' {
		return Complete, i + 1
	}
	for {
		i = r.ws(i)
		if i >= len(r.b) {
			return Incomplete, i
		}
		if r.b[i] != '"' {
			return Fail, i
		}
		st, j := r.str(i + 1)
		if st != Complete {
			return st, j
		}
		i = r.ws(j)
		if i >= len(r.b) {
			return Incomplete, i
		}
		if r.b[i] != ':' {
			return Fail, i
		}
		st, j = r.value(i+1, lvl)
		if st != Complete {
			return st, j
		}
		i = j
		if i >= len(r.b) {
			return Incomplete, i
		}
		switch r.b[i] {
		case '}':
			return Complete, i + 1
		case ',':
			i = r.ws(i + 1)
			if i >= len(r.b) {
				return Incomplete, i
			}
			if r.b[i] == '}' {
				return Complete, i + 1
			}
		default:
			return Fail, i
		}
	}
}

// Doc classifies b as a whole document: Complete only if a single array/object
// spans all of b (apart from whitespace); Incomplete if b is a viable proper prefix.
func Doc(b []byte) Status {
	r := &rec{b: b}
	i := r.ws(0)
	if i >= len(b) {
		return Incomplete
	}
	if b[i] != '[' && b[i] != '{' {
		return Fail
	}
	st, j := r.value(0, 0)
	switch st {
	case Complete:
		if j == len(b) {
			return Complete
		}
		return Fail
	default:
		return st
	}
}

// Value is like Doc but accepts any value type.
func Value(b []byte) Status {
	r := &rec{b: b, final: true}
	st, j := r.value(0, 0)
	if st == Complete && j != len(b) {
		return Fail
	}
	return st
}

// ValuePrefix classifies b as a (possibly incomplete) single value of any type,
// prefix mode (a number at the very end may still grow).
func ValuePrefix(b []byte) Status {
	r := &rec{b: b}
	st, j := r.value(0, 0)
	if st == Complete && j != len(b) {
		return Fail
	}
	return st
}

// FirstIsContainer reports whether the first non-space byte is '[' or '{'.
func FirstIsContainer(b []byte) bool {
	for _, c := range b {
		if isWS(c) {
			continue
		}
		return c == '[' || c == '{'
	}
	return false
}
