// Package lib holds the monitors and helpers shared by the property checks.
package lib

import (
	"strings"

	"github.com/gabriel-vasile/mimetype"
)

// Link is one element of a result hierarchy.
type Link struct {
	T   string // full String(), possibly with parameters
	Ext string
}

// Chain is the result hierarchy, leaf first.
type Chain []Link

// MaxChain bounds Parent() walking so that a cyclic chain cannot hang a monitor.
const MaxChain = 256

func ChainOf(m *mimetype.MIME) Chain {
	var c Chain
	for p := m; p != nil && len(c) < MaxChain; p = p.Parent() {
		c = append(c, Link{p.String(), p.Extension()})
	}
	return c
}

// Base strips parameters and surrounding space from a media type string.
func Base(s string) string {
	if i := strings.IndexByte(s, ';'); i >= 0 {
		s = s[:i]
	}
	return strings.TrimSpace(s)
}

func (c Chain) String() string {
	var sb strings.Builder
	for i, l := range c {
		if i > 0 {
			sb.WriteString(" <- ")
		}
		sb.WriteString(l.T)
		sb.WriteString("|")
		sb.WriteString(l.Ext)
	}
	return sb.String()
}

// Bare is the chain with parameters stripped (used to compare with the model).
func (c Chain) Bare() string {
	var sb strings.Builder
	for i, l := range c {
		if i > 0 {
			sb.WriteString(" <- ")
		}
		sb.WriteString(Base(l.T))
		sb.WriteString("|")
		sb.WriteString(l.Ext)
	}
	return sb.String()
}

func (c Chain) Leaf() Link {
	if len(c) == 0 {
		return Link{}
	}
	return c[0]
}

// Has reports whether some element has the bare type t.
func (c Chain) Has(t string) bool {
	for _, l := range c {
		if Base(l.T) == t {
			return true
		}
	}
	return false
}

// HasLink reports whether some element has the bare type t and extension ext.
func (c Chain) HasLink(t, ext string) bool {
	for _, l := range c {
		if Base(l.T) == t && l.Ext == ext {
			return true
		}
	}
	return false
}

// IsRootOnly reports whether the result is the bare parentless root.
func (c Chain) IsRootOnly() bool {
	return len(c) == 1 && c[0].T == "application/octet-stream" && c[0].Ext == ""
}

// Detect sets the limit explicitly and detects (the limit is process global:
// every judged call sets it itself).
func Detect(in []byte, limit uint32) *mimetype.MIME {
	mimetype.SetLimit(limit)
	return mimetype.Detect(in)
}

// Header returns the examined header for (in, limit).
func Header(in []byte, limit uint32) []byte {
	if limit > 0 && len(in) > int(limit) {
		return in[:limit]
	}
	return in
}
