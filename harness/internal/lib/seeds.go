package lib

import (
	"os"
	"path/filepath"
	"sort"
)

// Root returns /verif (the directory above build/ where the binary lives).
func Root() string {
	if r := os.Getenv("VERIF_ROOT"); r != "" {
		return r
	}
	exe, err := os.Executable()
	if err == nil {
		return filepath.Dir(filepath.Dir(exe))
	}
	return "/verif"
}

var seedCache [][]byte
var seedNames []string

// Seeds returns the committed seed corpus (headers of the repository's test
// table, workload seeds only) plus hand-made positives for the nodes the table
// never reaches.
func Seeds() [][]byte {
	if seedCache != nil {
		return seedCache
	}
	files, _ := filepath.Glob(filepath.Join(Root(), "corpus", "seeds", "*.bin"))
	sort.Strings(files)
	for _, f := range files {
		b, err := os.ReadFile(f)
		if err != nil {
			continue
		}
		seedCache = append(seedCache, b)
		seedNames = append(seedNames, filepath.Base(f))
	}
	for i, s := range ExtraSeeds {
		seedCache = append(seedCache, []byte(s))
		seedNames = append(seedNames, "extra-"+string(rune('a'+i%26)))
	}
	if len(seedCache) < 200 {
		panic("verif harness: seed corpus missing under " + Root())
	}
	return seedCache
}

func pad(n int) string { return string(make([]byte, n)) }

// ExtraSeeds are hand-made positives for nodes without a sample in the table,
// and inputs matching several siblings or levels at once.
var ExtraSeeds = []string{
	// apk: zip whose first entry is AndroidManifest.xml
	"PK\x03\x04\x14\x00\x00\x00\x00\x00\x00\x00\x00\x00\x00\x00\x00\x00\x00\x00\x00\x00\x00\x00\x00\x00\x13\x00\x00\x00AndroidManifest.xmlPK\x03\x04",
	// aaf
	"\xD0\xCF\x11\xE0\xA1\xB1\x1A\xE1AAFB\x0D\x00OM" + pad(14) + "\x09" + pad(490),
	// jxs
	"\x00\x00\x00\x0C\x4A\x58\x53\x20\x0D\x0A\x87\x0A",
	// exe
	"MZ\x90\x00\x03\x00\x00\x00",
	"\x00\x00\x00\x18ftypM4V \x00\x00\x00\x00", "\x00\x00\x00\x18ftyphevc\x00\x00\x00\x00", "\x00\x00\x00\x18ftypmsf1\x00\x00\x00\x00",
	"\x00\x00\x00\x18ftypmj2s\x00\x00\x00\x00", "\x00\x00\x00\x18ftypdvr1\x00\x00\x00\x00",
	"\xD9\xD9\xF7\xA1\x61\x61\x01", "icns\x00\x00\x10\x00", "d8:announce35:udp://tracker.example.org:80/announce", "PAR1\x15\x00\x15\x00",
	// several levels / siblings at once
	"\x00\x01\x00\x00Standard Jet DB\x00", "\x00\x01\x00\x00Standard ACE DB\x00", "\x00\x01\x00\x00\x00\x0e\x00\x80",
	"RIFF\x00\x00\x00\x00WAVEfmt ", "RIFF\x00\x00\x00\x00WEBPVP8 ", "RIFF\x00\x00\x00\x00QLCMfmt ", "RIFF\x00\x00\x00\x00AVI LIST\x00",
	"<html><head><svg>", "<?xml version=\"1.0\"?><svg xmlns=\"http://www.w3.org/2000/svg\">", "<?xml version=\"1.0\"?><rss><feed xmlns=\"http://www.w3.org/2005/Atom\">",
	"{\"type\":\"Feature\",\"log\":{\"version\":\"1.2\"},\"asset\":{\"version\":\"2.0\"}}", "{\"a\":1}\n{\"b\":2}\n", "[1,2]\n[3,4]\n", "a,b\tc\n1,2\t3\n",
	"#!/usr/bin/env python\nprint(1)\n", "#!/usr/bin/env php\n<?php echo 1;", "<?php echo '<html>'; ?>",
	"\xEF\xBB\xBF<html><meta charset=latin1>", "\xFF\xFEh\x00i\x00", "\xFE\xFF\x00h\x00i", "\x00\x00\xFE\xFF\x00\x00\x00h", "\xFF\xFE\x00\x00h\x00\x00\x00",
	"\x1A\x45\xDF\xA3\x01\x00\x00\x00\x00\x00\x00\x1F\x42\x86\x81\x01\x42\x82\x84webm", "\x1A\x45\xDF\xA3\x93\x42\x82\x88matroska",
	"Cr24\x02\x00\x00\x00\x04\x00\x00\x00\x04\x00\x00\x00AAAABBBBPK\x03\x04",
	"\xCA\xFE\xBA\xBE\x00\x00\x00\x34", "\xCA\xFE\xBA\xBE\x00\x00\x00\x02",
	"\x7FELF\x02\x01\x01\x00\x00\x00\x00\x00\x00\x00\x00\x00\x03\x00\x3e\x00", "\x7FELF\x02\x01\x01\x00\x00\x00\x00\x00\x00\x00\x00\x00\x04\x00\x3e\x00", "\x7FELF\x01\x02\x01\x00\x00\x00\x00\x00\x00\x00\x00\x00\x00\x01\x00\x3e", "OggS\x00\x02" + pad(22) + "\x01vorbis\x00\x00", "OggS\x00\x02" + pad(22) + "\x80theora\x00\x00",
	"!<arch>\ndebian-binary   ", "\x89PNG\x0d\x0a\x1a\x0a" + pad(29) + "acTL", "\x00\x00\x27\x0A" + pad(20) + "\x00\x00\x00\x00\xe8\x03\x00\x00" + pad(76) + "\x05\x00\x00\x00",
	"WEBVTT\n\n00:01.000 --> 00:04.000\nhi", "1\n00:02:16,612 --> 00:02:19,376\nSenator, we're making\n", "BEGIN:VCARD\nVERSION:3.0\n", "BEGIN:VCALENDAR\r\nVERSION:2.0\r\n",
	"{\\rtf1\\ansi}", "WARC/1.0\r\nWARC-Type: warcinfo\r\n", "%PDF-1.7\n", "\x0a%PDF-1.7", "%FDF-1.2", "%!PS-Adobe-3.0",
	"", " ", "\n", "a", "\x00", "\xFF",
	// every signature variant of detectors that accept several
	"\xFE\xED\xFA\xCE\x00\x00\x00\x0c", "\xCE\xFA\xED\xFE\x07\x00\x00\x00", "\xFE\xED\xFA\xCF\x01\x00\x00\x07", "\xCF\xFA\xED\xFE\x07\x00\x00\x01",
	"\xFF\x0A\x00\x00", "\x00\x00\x00\x0cJXL\x20\x0d\x0a\x87\x0a", "ID3\x03\x00\x00\x00\x00\x00\x00", "\xFF\xFB\x90\x00", "\xFF\xF3\x90\x00", "\xFF\xE3\x90\x00",
	"\x28\xB5\x2F\xFD\x00", "\x50\x2A\x4D\x18\x00", "070707000", "070701000", "070702000", "Rar!\x1A\x07\x00", "Rar!\x1A\x07\x01\x00",
	"\xed\xab\xee\xdb\x03", "drpm\x00", "CWS\x09", "FWS\x09", "ZWS\x0d", "II\x2A\x00\x08", "MM\x00\x2A\x00", "\x00\x00\x01\x00\x01", "\x00\x00\x02\x00\x01",
	"glTF\x02\x00\x00\x00", "glTF\x01\x00\x00\x00", "GIF87a", "GIF89a", "\xFF\xF1\x50", "\xFF\xF9\x50", "WARC/1.1\r\n", "-----BEGIN PKCS7-----\n",
	"\x30\x80\x06\x09\x2A\x86\x48\x86\xF7\x0D\x01\x07\x02" + pad(10), "\x30\x81\x10\x06\x09\x2A\x86\x48\x86\xF7\x0D\x01\x07\x02" + pad(10), "\x30\x83\x10\x00\x00\x06\x09\x2A\x86\x48\x86\xF7\x0D\x01\x07\x02" + pad(10),
	"AC1.40", "AC1032", "AC1015", "ttcf\x00\x01\x00\x00", "ttcf\x00\x02\x00\x00", "ISc(\x00\x00\x00\x01", "ISc(\x00\x00\x00\x04",
	"TZif\x00" + pad(31) + "\x00\x00\x00\x01" + pad(8), "TZif3" + pad(31) + "\x00\x00\x00\x02" + pad(8), "\x00\x00\x01\xB3\x00", "\x00\x00\x01\xBA\x44",
	"\x00\x00\x00\x14ftypqt  \x00\x00\x00\x00", "\x00\x00\x00\x08wide\x00\x00\x00\x00mdat", "\x00\x00\x00\x10moov\x00\x00\x00\x00", "\x00\x00\x00\x10free\x00\x00\x00\x00",
	"\x00\x00\x00\x0cjP  \x0d\x0a\x87\x0a\x00\x00\x00\x14ftypjpx ", "\x00\x00\x00\x0cjP  \x0d\x0a\x87\x0a\x00\x00\x00\x14ftypjpm ",
	"AT&TFORM\x00\x00\x00\x00DJVU", "AT&TFORM\x00\x00\x00\x00DJVI", "AT&TFORM\x00\x00\x00\x00THUM", "OggS\x00\x02" + pad(22) + "OpusHead\x01", "OggS\x00\x02" + pad(22) + "fishead\x00\x03",
	"\x03\x0C\x1F\x00" + pad(8) + "\x00\x00" + pad(14) + "\x00" + pad(1) + "\x00\x00" + pad(40), "\x83\x01\x01\x00" + pad(70),
	"<?php\n", "<? \n", "#! /usr/bin/env node\n", "#!/usr/bin/lua\n", "#!/usr/bin/perl -w\n", "#!/usr/bin/env tclsh\n", "#!/usr/bin/wish\n",
	"<?xml version=\"1.0\"?><kml xmlns=\"http://earth.google.com/kml/2.1\">", "<?xml version=\"1.0\"?><x xmlns:gml=\"http://www.opengis.net/gml/3.2\">", "<?xml version=\"1.0\"?><Ontology xmlns=\"http://www.w3.org/2002/07/owl#\">",
	"\xEF\xBB\xBFWEBVTT\n", "WEBVTT", "\x0a%PDF-1.4", "\xef\xbb\xbf%PDF-1.4",
}
