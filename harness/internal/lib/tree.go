package lib

import (
	"github.com/gabriel-vasile/mimetype"
)

// Node is a node of the harness-side copy of the detector tree.
type Node struct {
	ID       int
	MIME     string
	Ext      string
	Aliases  []string
	AliasCap int
	Parent   int
	Children []int
	Det      func([]byte, uint32) bool
}

// Tree is an independent copy of the detector tree taken through the verif
// snapshot hook. Only the leaf detector funcs are shared with the library.
type Tree struct {
	Nodes []*Node
}

func Snapshot() *Tree {
	s := mimetype.VerifSnapshot()
	t := &Tree{}
	for _, n := range s {
		t.Nodes = append(t.Nodes, &Node{ID: n.ID, MIME: n.MIME, Ext: n.Ext, Aliases: n.Aliases, AliasCap: n.AliasCap,
			Parent: n.Parent, Children: append([]int(nil), n.Children...), Det: n.Detector})
	}
	return t
}

// Walk is the reference first-match walk (iterative, written independently of
// the library's recursive match). It returns the ids from the root to the leaf.
func (t *Tree) Walk(in []byte, limit uint32) []int {
	path := []int{0}
	cur := 0
	for {
		next := -1
		for _, c := range t.Nodes[cur].Children {
			if t.Nodes[c].Det(in, limit) {
				next = c
				break
			}
		}
		if next < 0 {
			return path
		}
		path = append(path, next)
		cur = next
	}
}

// ChainOfID is the expected bare result chain (leaf first) for a leaf id.
func (t *Tree) ChainOfID(id int) Chain {
	var c Chain
	for p := id; p >= 0; p = t.Nodes[p].Parent {
		c = append(c, Link{t.Nodes[p].MIME, t.Nodes[p].Ext})
	}
	return c
}

// AddExt mirrors (*MIME).Extend: the new node is put in front of the parent's
// current children.
func (t *Tree) AddExt(parent int, mime, ext string, aliases []string, det func([]byte, uint32) bool) int {
	id := len(t.Nodes)
	t.Nodes = append(t.Nodes, &Node{ID: id, MIME: mime, Ext: ext, Aliases: aliases, Parent: parent, Det: det})
	p := t.Nodes[parent]
	p.Children = append([]int{id}, p.Children...)
	return id
}

// Lookup mirrors the depth-first name/alias search and returns the node id or -1.
func (t *Tree) Lookup(name string) int {
	var rec func(id int) int
	rec = func(id int) int {
		n := t.Nodes[id]
		if n.MIME == name {
			return id
		}
		for _, a := range n.Aliases {
			if a == name {
				return id
			}
		}
		for _, c := range n.Children {
			if r := rec(c); r >= 0 {
				return r
			}
		}
		return -1
	}
	return rec(0)
}

// Depth is the length of the longest root-to-leaf path (number of nodes).
func (t *Tree) Depth() int {
	max := 0
	for _, n := range t.Nodes {
		d := 0
		for p := n.ID; p >= 0; p = t.Nodes[p].Parent {
			d++
		}
		if d > max {
			max = d
		}
	}
	return max
}

// ChildIndex returns the position of id among its parent's children.
func (t *Tree) ChildIndex(id int) int {
	p := t.Nodes[id].Parent
	if p < 0 {
		return 0
	}
	for i, c := range t.Nodes[p].Children {
		if c == id {
			return i
		}
	}
	return -1
}

// Find returns the first node with the given mime and extension, or -1.
func (t *Tree) Find(mime, ext string) int {
	for _, n := range t.Nodes {
		if n.MIME == mime && n.Ext == ext {
			return n.ID
		}
	}
	return -1
}

// Names returns every registered type and alias.
func (t *Tree) Names() map[string]bool {
	m := map[string]bool{}
	for _, n := range t.Nodes {
		m[n.MIME] = true
		for _, a := range n.Aliases {
			m[a] = true
		}
	}
	return m
}

// PathOfChain maps a bare result chain (leaf first) back to tree ids (root
// first) following children by (mime, ext); nil if it is not a path of the tree.
func (t *Tree) PathOfChain(c Chain) []int {
	if len(c) == 0 {
		return nil
	}
	root := c[len(c)-1]
	if Base(root.T) != t.Nodes[0].MIME || root.Ext != t.Nodes[0].Ext {
		return nil
	}
	path := []int{0}
	cur := 0
	for i := len(c) - 2; i >= 0; i-- {
		found := -1
		for _, ch := range t.Nodes[cur].Children {
			if t.Nodes[ch].MIME == Base(c[i].T) && t.Nodes[ch].Ext == c[i].Ext {
				found = ch
				break
			}
		}
		if found < 0 {
			return nil
		}
		path = append(path, found)
		cur = found
	}
	return path
}
