package lib

import (
	"go/ast"
	"go/parser"
	"go/token"
	"os"
	"path/filepath"
	"sort"
	"strconv"
)

// RepoDir is the working tree under test (the harness module replaces the
// library by this directory at build time).
func RepoDir() string {
	if r := os.Getenv("VERIF_REPO"); r != "" {
		return r
	}
	return "/repo"
}

var dictCache [][]byte

// SourceDictionary returns every string literal and every byte-slice literal
// found in the non-test Go files of the library's signature packages, read from
// the working tree under test at run time. It is only a source of *inputs*
// (tokens to splice into generated files): a signature added or changed in the
// tree shows up here, so generators can place it next to other formats' magic.
func SourceDictionary() [][]byte {
	if dictCache != nil {
		return dictCache
	}
	seen := map[string]bool{}
	add := func(b []byte) {
		if len(b) < 2 || len(b) > 80 || seen[string(b)] {
			return
		}
		seen[string(b)] = true
	}
	dirs := []string{"internal/magic", "internal/charset", "internal/json", "."}
	if more, _ := filepath.Glob(filepath.Join(RepoDir(), "internal", "*")); len(more) > 0 {
		for _, m := range more {
			rel := filepath.Join("internal", filepath.Base(m))
			known := false
			for _, d := range dirs {
				known = known || d == rel
			}
			if !known {
				dirs = append(dirs, rel) // a package added by the change under test
			}
		}
	}
	for _, dir := range dirs {
		files, _ := filepath.Glob(filepath.Join(RepoDir(), dir, "*.go"))
		for _, f := range files {
			if len(f) > 8 && f[len(f)-8:] == "_test.go" {
				continue
			}
			fs := token.NewFileSet()
			af, err := parser.ParseFile(fs, f, nil, 0)
			if err != nil {
				continue
			}
			ast.Inspect(af, func(n ast.Node) bool {
				switch x := n.(type) {
				case *ast.BasicLit:
					if x.Kind == token.STRING {
						if s, err := strconv.Unquote(x.Value); err == nil {
							add([]byte(s))
						}
					}
				case *ast.CompositeLit:
					// []byte{0x.., 'c', ...}
					var b []byte
					for _, e := range x.Elts {
						bl, ok := e.(*ast.BasicLit)
						if !ok {
							return true
						}
						switch bl.Kind {
						case token.INT:
							v, err := strconv.ParseUint(bl.Value, 0, 8)
							if err != nil {
								return true
							}
							b = append(b, byte(v))
						case token.CHAR:
							r, _, _, err := strconv.UnquoteChar(bl.Value[1:len(bl.Value)-1], '\'')
							if err != nil || r > 255 {
								return true
							}
							b = append(b, byte(r))
						default:
							return true
						}
					}
					add(b)
				}
				return true
			})
		}
	}
	var keys []string
	for k := range seen {
		keys = append(keys, k)
	}
	sort.Strings(keys)
	for _, k := range keys {
		dictCache = append(dictCache, []byte(k))
	}
	return dictCache
}
