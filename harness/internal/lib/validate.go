package lib

import (
	"fmt"
	"mime"
	"strings"

	"github.com/gabriel-vasile/mimetype"
)

// Validator is the C02 result invariant. It is independent of how the result
// was produced: it looks only at the returned value through its public methods.
type Validator struct {
	Names    map[string]bool // registered type names (not aliases)
	MaxDepth int
}

func NewValidator(t *Tree) *Validator {
	v := &Validator{Names: map[string]bool{}, MaxDepth: t.Depth()}
	for _, n := range t.Nodes {
		v.Names[strings.ToLower(n.MIME)] = true
	}
	return v
}

// AddName registers a type added through Extend by the harness.
func (v *Validator) AddName(mime string) {
	v.Names[strings.ToLower(Base(mime))] = true
	v.MaxDepth++
}

var charsetTypes = map[string]bool{"text/plain": true, "text/html": true, "text/xml": true}

// Check returns "" when (m, err) satisfies the invariant, else what is wrong.
func (v *Validator) Check(m *mimetype.MIME, err error) string {
	if m == nil {
		return "nil MIME value"
	}
	s := m.String()
	mt, params, perr := mime.ParseMediaType(s)
	if perr != nil {
		return fmt.Sprintf("String() %q not accepted by mime.ParseMediaType: %v", s, perr)
	}
	if !v.Names[mt] {
		return fmt.Sprintf("type %q (from %q) is not a registered format", mt, s)
	}
	for k := range params {
		if k != "charset" {
			return fmt.Sprintf("parameter %q on %q (only charset allowed)", k, s)
		}
		if !charsetTypes[mt] {
			return fmt.Sprintf("charset parameter on %q (only text/plain, text/html, text/xml may carry one)", s)
		}
	}
	if len(params) == 0 && strings.ContainsAny(s, ";") {
		return fmt.Sprintf("String() %q has a ';' but no parameter", s)
	}
	n := 1
	last := m
	for p := m.Parent(); p != nil; p = p.Parent() {
		n++
		if n > v.MaxDepth+1 {
			return fmt.Sprintf("Parent() chain longer than %d (tree depth), possibly cyclic", v.MaxDepth+1)
		}
		ps := p.String()
		if strings.ContainsAny(ps, ";") {
			return fmt.Sprintf("ancestor %q carries parameters", ps)
		}
		pt, pp, e := mime.ParseMediaType(ps)
		if e != nil || len(pp) != 0 {
			return fmt.Sprintf("ancestor %q is not a bare valid media type (%v)", ps, e)
		}
		if !v.Names[pt] {
			return fmt.Sprintf("ancestor %q is not a registered format", ps)
		}
		last = p
	}
	if last.String() != "application/octet-stream" || last.Extension() != "" {
		return fmt.Sprintf("hierarchy ends at %q|%q, not at application/octet-stream", last.String(), last.Extension())
	}
	if err != nil {
		if s != "application/octet-stream" || m.Extension() != "" || m.Parent() != nil {
			return fmt.Sprintf("error %v returned together with %q|%q (parent nil: %v), want exactly application/octet-stream", err, s, m.Extension(), m.Parent() == nil)
		}
	}
	return ""
}
