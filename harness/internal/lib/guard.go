package lib

import (
	"os"
	"syscall"
)

// Arena is a reusable buffer whose end is followed by an inaccessible page:
// a slice placed in it has cap == len and ends exactly at the guard page, so a
// read past the end faults (SIGSEGV, fatal) and a reslice past len panics.
type Arena struct {
	mem []byte
	n   int
}

func NewArena(max int) *Arena {
	ps := os.Getpagesize()
	n := (max + ps - 1) / ps * ps
	m, err := syscall.Mmap(-1, 0, n+ps, syscall.PROT_READ|syscall.PROT_WRITE, syscall.MAP_ANON|syscall.MAP_PRIVATE)
	if err != nil {
		panic("verif harness: mmap: " + err.Error())
	}
	if err := syscall.Mprotect(m[n:], syscall.PROT_NONE); err != nil {
		panic("verif harness: mprotect: " + err.Error())
	}
	return &Arena{m, n}
}

func (a *Arena) Cap() int { return a.n }

// Place copies data so that it ends at the guard page, cap == len.
func (a *Arena) Place(data []byte) []byte {
	off := a.n - len(data)
	copy(a.mem[off:a.n], data)
	return a.mem[off:a.n:a.n]
}

// ROBuf is a read-only copy of data: writing to it faults.
type ROBuf struct {
	mem []byte
	B   []byte
}

func NewROBuf(data []byte) *ROBuf {
	ps := os.Getpagesize()
	n := (len(data) + ps - 1) / ps * ps
	if n == 0 {
		n = ps
	}
	m, err := syscall.Mmap(-1, 0, n+ps, syscall.PROT_READ|syscall.PROT_WRITE, syscall.MAP_ANON|syscall.MAP_PRIVATE)
	if err != nil {
		panic("verif harness: mmap: " + err.Error())
	}
	off := n - len(data)
	copy(m[off:n], data)
	syscall.Mprotect(m[:n], syscall.PROT_READ)
	syscall.Mprotect(m[n:], syscall.PROT_NONE)
	return &ROBuf{mem: m, B: m[off:n:n]}
}

func (r *ROBuf) Free() { syscall.Munmap(r.mem) }
