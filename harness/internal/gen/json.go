// Package gen holds the structure-aware input generators.
package gen

import (
	"bytes"
	"fmt"
	"math/rand"
	"strings"
)

// JSONOpts steers the random document generator.
type JSONOpts struct {
	MaxDepth  int
	MaxItems  int
	WS        int  // 0 compact, 1 some spaces, 2 pretty (newlines/CRLF/tabs)
	NoSvg     bool // avoid producing "<svg" inside strings
	Hostile   bool // strings start/end with structural characters more often
	AsciiOnly bool
}

var structural = []string{",", "}", "]", "[", "{", ":", `\"`, `\\`, "/", " ", "'"}

func (o *JSONOpts) ws(r *rand.Rand, sb *bytes.Buffer) {
	switch o.WS {
	case 0:
	case 1:
		if r.Intn(3) == 0 {
			sb.WriteByte(' ')
		}
	default:
		switch r.Intn(6) {
		case 0:
			sb.WriteString("\n  ")
		case 1:
			sb.WriteString("\r\n\t")
		case 2:
			sb.WriteString(" ")
		case 3:
			sb.WriteString("\t \n")
		}
	}
}

// JSONString writes a valid JSON string literal (with quotes).
func JSONString(r *rand.Rand, o *JSONOpts) string {
	var sb strings.Builder
	sb.WriteByte('"')
	n := r.Intn(8)
	if r.Intn(12) == 0 {
		n = 20 + r.Intn(60)
	}
	piece := func() {
		switch k := r.Intn(14); {
		case k < 5:
			sb.WriteString([]string{"a", "abc", "key", "Hello", "x y", "0", "true", "null", "-1.5e3"}[r.Intn(9)])
		case k < 8:
			sb.WriteString(structural[r.Intn(len(structural))])
		case k == 8:
			sb.WriteString([]string{`\n`, `\t`, `\r`, `\b`, `\f`, `\/`, `\"`, `\\`}[r.Intn(8)])
		case k == 9:
			fmt.Fprintf(&sb, `\u%04x`, r.Intn(0x10000))
		case k == 10:
			fmt.Fprintf(&sb, `\u%04X`, 0xD800+r.Intn(0x400))
			fmt.Fprintf(&sb, `\u%04X`, 0xDC00+r.Intn(0x400))
		case k == 11 && !o.AsciiOnly:
			sb.WriteString([]string{"é", "ü", "€", "中", "😀", " ", " ", "ß"}[r.Intn(8)])
		case k == 12:
			sb.WriteString([]string{"<", ">", "<sv", "svg", "<?", "#!", "%", "PK", "\x7f", "{a:1}", "[1,2]"}[r.Intn(11)])
		default:
			sb.WriteByte(byte('a' + r.Intn(26)))
		}
	}
	if o.Hostile && r.Intn(2) == 0 {
		sb.WriteString(structural[r.Intn(len(structural))])
	}
	for i := 0; i < n; i++ {
		piece()
	}
	if o.Hostile && r.Intn(2) == 0 {
		sb.WriteString(structural[r.Intn(len(structural))])
	}
	sb.WriteByte('"')
	s := sb.String()
	if o.NoSvg && strings.Contains(s, "<svg") {
		s = strings.ReplaceAll(s, "<svg", "<sXg")
	}
	return s
}

var numbers = []string{"0", "-0", "1", "-1", "12", "1234567890", "0.5", "-0.25", "1e3", "1E3", "1e+3", "1e-3", "-1.5E+10", "0e0", "0.0", "123.456e-7", "9007199254740993", "1.7976931348623157e308"}

// JSONScalar writes a scalar value.
func JSONScalar(r *rand.Rand, o *JSONOpts) string {
	switch r.Intn(8) {
	case 0:
		return "true"
	case 1:
		return "false"
	case 2:
		return "null"
	case 3, 4:
		return numbers[r.Intn(len(numbers))]
	default:
		return JSONString(r, o)
	}
}

func (o *JSONOpts) value(r *rand.Rand, sb *bytes.Buffer, depth int) {
	if depth >= o.MaxDepth || r.Intn(3) == 0 {
		sb.WriteString(JSONScalar(r, o))
		return
	}
	if r.Intn(2) == 0 {
		o.array(r, sb, depth)
	} else {
		o.object(r, sb, depth)
	}
}

func (o *JSONOpts) array(r *rand.Rand, sb *bytes.Buffer, depth int) {
	sb.WriteByte('[')
	n := r.Intn(o.MaxItems + 1)
	o.ws(r, sb)
	for i := 0; i < n; i++ {
		if i > 0 {
			sb.WriteByte(',')
			o.ws(r, sb)
		}
		o.value(r, sb, depth+1)
		o.ws(r, sb)
	}
	sb.WriteByte(']')
}

func (o *JSONOpts) object(r *rand.Rand, sb *bytes.Buffer, depth int) {
	sb.WriteByte('{')
	n := r.Intn(o.MaxItems + 1)
	o.ws(r, sb)
	for i := 0; i < n; i++ {
		if i > 0 {
			sb.WriteByte(',')
			o.ws(r, sb)
		}
		sb.WriteString(JSONString(r, o))
		o.ws(r, sb)
		sb.WriteByte(':')
		o.ws(r, sb)
		o.value(r, sb, depth+1)
		o.ws(r, sb)
	}
	sb.WriteByte('}')
}

// JSONDoc returns a random RFC 8259 document whose top-level value is an array
// or an object, with optional leading/trailing whitespace.
func JSONDoc(r *rand.Rand, o JSONOpts) []byte {
	if o.MaxDepth == 0 {
		o.MaxDepth = 4
	}
	if o.MaxItems == 0 {
		o.MaxItems = 4
	}
	var sb bytes.Buffer
	if r.Intn(4) == 0 {
		sb.WriteString([]string{" ", "\n", "\t", "\r\n", "  \n"}[r.Intn(5)])
	}
	if r.Intn(2) == 0 {
		o.array(r, &sb, 0)
	} else {
		o.object(r, &sb, 0)
	}
	if r.Intn(4) == 0 {
		sb.WriteString([]string{" ", "\n", "\t", "\r\n"}[r.Intn(4)])
	}
	return sb.Bytes()
}

// Nest returns open^depth + mid + close^depth.
func Nest(open, mid, close string, depth int) []byte {
	b := make([]byte, 0, (len(open)+len(close))*depth+len(mid))
	for i := 0; i < depth; i++ {
		b = append(b, open...)
	}
	b = append(b, mid...)
	for i := 0; i < depth; i++ {
		b = append(b, close...)
	}
	return b
}
