package gen

import (
	"bytes"
	"encoding/binary"
)

// Interesting 32-bit values for attacker-controlled length / offset fields.
var Interesting32 = []uint32{0, 1, 2, 3, 4, 7, 8, 0x1a, 0x1d, 0x1e, 0x1f, 0x30, 0x31, 0x32, 0x7f, 0x80, 0xff, 0x100, 0x1ff, 0x200, 0x201, 0xfff, 0x1000, 0x1001,
	0x7fff, 0x8000, 0xffff, 0x10000, 0x7fffffff, 0x80000000, 0x80000001, 0xffffffff, 0xfffffffe, 0xffffffcf, 0xffffffce, 0xffffffd0, 0xffffffe1, 0xffffffe2, 0xfffffff0, 0xffffff00}

func le32(v uint32) []byte { b := make([]byte, 4); binary.LittleEndian.PutUint32(b, v); return b }
func le16(v uint16) []byte { b := make([]byte, 2); binary.LittleEndian.PutUint16(b, v); return b }

// ZipLocalHeader builds one local file header followed by its (fake) data.
func ZipLocalHeader(name string, csize uint32, nameLenField int, extra []byte, data []byte, flags uint16) []byte {
	var b bytes.Buffer
	b.WriteString("PK\x03\x04")
	b.Write(le16(20))
	b.Write(le16(flags))
	b.Write(le16(0)) // method
	b.Write(le16(0)) // time
	b.Write(le16(0)) // date
	b.Write(le32(0)) // crc
	b.Write(le32(csize))
	b.Write(le32(csize))
	if nameLenField < 0 {
		nameLenField = len(name)
	}
	b.Write(le16(uint16(nameLenField)))
	b.Write(le16(uint16(len(extra))))
	b.WriteString(name)
	b.Write(extra)
	b.Write(data)
	return b.Bytes()
}

// ZipHostile returns hand-built archives with attacker-chosen compressed-size
// fields, name-length fields and 0-7 further headers, plus truncations.
func ZipHostile() [][]byte {
	var out [][]byte
	firsts := []string{"[Content_Types].xml", "_rels/.rels", "docProps/app.xml", "customXml/x", "[trash]/0", "mimetype", "META-INF/MANIFEST.MF", "AndroidManifest.xml", "x", "", "word/document.xml", "xl/workbook.xml", "ppt/p.xml"}
	nexts := []string{"word/document.xml", "xl/a", "ppt/", "docProps/", "x", "", "META-INF/MANIFEST.MF", "classes.dex", "wor", "xl", "[Content_Types].xml"}
	for fi, f := range firsts {
		for vi, v := range Interesting32 {
			if (fi+vi)%3 != 0 && fi > 1 {
				continue
			}
			for k := 0; k <= 7; k++ {
				var b bytes.Buffer
				b.Write(ZipLocalHeader(f, v, -1, nil, []byte("<x/>"), uint16(k&1)*8))
				for j := 0; j < k; j++ {
					n := nexts[(fi+vi+j)%len(nexts)]
					nl := -1
					if j%3 == 2 {
						nl = (vi * 7) % 70000
					}
					b.Write(ZipLocalHeader(n, Interesting32[(vi+j)%len(Interesting32)], nl, nil, nil, 0))
				}
				out = append(out, b.Bytes())
			}
		}
	}
	// truncated fixed header and boundary lengths
	h := ZipLocalHeader("[Content_Types].xml", 0, -1, nil, nil, 0)
	h2 := append(append([]byte{}, h...), ZipLocalHeader("word/", 0, -1, nil, nil, 0)...)
	for n := 0; n <= len(h2); n++ {
		out = append(out, h2[:n])
	}
	// csize pointing exactly at / one before / one past the end
	for delta := -3; delta <= 3; delta++ {
		body := bytes.Repeat([]byte("A"), 40)
		total := 30 + 19 + len(body)
		cs := uint32(total - 30 - 49 + delta)
		out = append(out, ZipLocalHeader("[Content_Types].xml", cs, -1, nil, body, 0))
		out = append(out, append(ZipLocalHeader("[Content_Types].xml", uint32(len(body)+delta), -1, nil, body, 0), "PK\x03\x04"...))
		out = append(out, append(ZipLocalHeader("[Content_Types].xml", uint32(len(body)+delta), -1, nil, body, 0), ZipLocalHeader("xl/", 0, -1, nil, nil, 0)[:26+delta+4]...))
	}
	return out
}

// CRXHostile: "Cr24" headers whose two length fields wrap uint32 or point around the end.
func CRXHostile() [][]byte {
	var out [][]byte
	for _, a := range Interesting32 {
		for _, b := range Interesting32 {
			if (a+b)%5 != 0 && a != 0xffffffff-b+1 && a > 0x1000 && b > 0x1000 {
				continue
			}
			var x bytes.Buffer
			x.WriteString("Cr24")
			x.Write(le32(2))
			x.Write(le32(a))
			x.Write(le32(b))
			x.WriteString("KEYKEYKEPK\x03\x04SIG")
			out = append(out, x.Bytes())
			out = append(out, x.Bytes()[:16])
		}
	}
	for n := 0; n <= 20; n++ {
		out = append(out, []byte("Cr24\x02\x00\x00\x00\x00\x00\x00\x00\x00\x00\x00\x00PK\x03\x04")[:n])
	}
	return out
}

// OLEHostile: compound-file headers with every interesting first directory
// sector id, both sector sizes, at boundary lengths.
func OLEHostile() [][]byte {
	var out [][]byte
	magic := []byte{0xD0, 0xCF, 0x11, 0xE0, 0xA1, 0xB1, 0x1A, 0xE1}
	clsid := []byte{0x06, 0x09, 0x02, 0x00, 0x00, 0x00, 0x00, 0x00, 0xc0, 0x00, 0x00, 0x00, 0x00, 0x00, 0x00, 0x46}
	lens := []int{8, 26, 28, 48, 52, 511, 512, 513, 519, 520, 521, 592, 607, 608, 609, 1151, 1152, 1153, 1200, 4095, 4096, 4097, 4175, 4176, 4192, 4193, 8192, 8288}
	for _, v4 := range []bool{false, true} {
		for _, sec := range Interesting32 {
			for _, n := range lens {
				b := make([]byte, n)
				copy(b, magic)
				if n > 27 && v4 {
					b[26], b[27] = 4, 0
				}
				if n >= 52 {
					binary.LittleEndian.PutUint32(b[48:], sec)
				}
				ss := 512
				if v4 {
					ss = 4096
				}
				off := ss*(1+int(int32(sec))) + 80
				if sec < 64 && off >= 0 && off+16 <= n {
					copy(b[off:], clsid)
				}
				if n > 1200 {
					copy(b[1160:], "W\x00k\x00s\x00S\x00S\x00W\x00o\x00r\x00k\x00B\x00o\x00o\x00k")
				}
				out = append(out, b)
			}
		}
	}
	// every 16-bit field of the header's fixed part (minor / major version, byte order,
	// sector shift, mini sector shift) with every value 0-70 and the extremes, crossed
	// with first-directory sector ids whose products with a power of two wrap around
	for _, major := range []uint16{3, 4} {
		for _, off := range []int{24, 26, 28, 30, 32} {
			for v := 0; v <= 75; v++ {
				val := uint16(v)
				if v > 70 {
					val = []uint16{0xFF, 0x7FFF, 0x8000, 0xFFFE, 0xFFFF}[v-71]
				}
				for _, sec := range []uint32{0, 1, 2, 3, 7, 0x7FFFFFFF, 0x80000000, 0xFFFFFFFE, 0xFFFFFFFF} {
					for _, n := range []int{512, 640, 4704} {
						b := make([]byte, n)
						copy(b, magic)
						binary.LittleEndian.PutUint16(b[24:], 0x3E)
						binary.LittleEndian.PutUint16(b[26:], major)
						binary.LittleEndian.PutUint16(b[28:], 0xFFFE)
						binary.LittleEndian.PutUint16(b[30:], 9)
						binary.LittleEndian.PutUint16(b[32:], 6)
						binary.LittleEndian.PutUint16(b[off:], val)
						binary.LittleEndian.PutUint32(b[48:], sec)
						copy(b[n-100:], clsid)
						out = append(out, b)
					}
				}
			}
		}
	}
	return out
}

// MatroskaHostile: EBML magic, the DocType id 42 82 near the end of the input
// and at the 4096 boundary, followed by every vint width byte (including 0).
func MatroskaHostile() [][]byte {
	var out [][]byte
	magic := []byte{0x1A, 0x45, 0xDF, 0xA3}
	widths := []byte{0x80, 0x81, 0x40, 0x20, 0x10, 0x08, 0x04, 0x02, 0x01, 0x00, 0xFF, 0x88}
	for _, pad := range []int{0, 1, 5, 100, 4085, 4086, 4087, 4088, 4089, 4090, 4091, 4092, 4093, 4094, 4095, 4096, 5000} {
		for _, w := range widths {
			for tail := 0; tail <= 12; tail++ {
				b := append([]byte{}, magic...)
				b = append(b, bytes.Repeat([]byte{0x01}, pad)...)
				b = append(b, 0x42, 0x82, w)
				t := []byte("\x00\x00\x00\x00\x00\x00\x00matroska")
				if tail%2 == 0 {
					t = []byte("webmwebmwebmwebm")
				}
				b = append(b, t[:minInt(tail, len(t))]...)
				out = append(out, b)
			}
		}
		b := append(append([]byte{}, magic...), bytes.Repeat([]byte{0x01}, pad)...)
		out = append(out, append(append([]byte{}, b...), 0x42), append(append([]byte{}, b...), 0x42, 0x82))
	}
	return out
}

// TextTails: escape sequences, partial runes and quotes at the very end.
func TextTails() [][]byte {
	var out [][]byte
	heads := []string{`["`, `{"`, `{"a":"`, `[1,"`, `{"type":"Feature","x":"`, "a,b\n1,\"", "{\"a\":1}\n[\"", ``, `x`, `<html><meta charset="`, `<?xml version="1.0" encoding="`}
	tails := []string{`\`, `\u`, `\u1`, `\u12`, `\u123`, `ሴ`, `\ug`, `\u12g`, `\"`, `\\`, "\xC3", "\xE2\x82", "\xF0\x9F", "\xF0\x9F\x98", "\xFF", "\xC0", "\"", "\"\"", "\"\"\"", "'", "\r", "\n", "\r\n", ",", ":", "-", "1e", "1e+", "tru", "nul", "fals", ".", "-."}
	for _, h := range heads {
		for _, t := range tails {
			out = append(out, []byte(h+t))
			out = append(out, []byte(h+t+t))
		}
	}
	return out
}

// MarkupHostile: HTML / XML whose meta / prologue text stresses the hand-written
// scanners (the word charset without '=', unterminated quotes, odd separators).
func MarkupHostile() [][]byte {
	var out [][]byte
	contents := []string{"charset", "charset ", "charset;", "charset utf-8", "How to declare the charset of a page", "text/html; charset", "text/html; charset utf-8", "xcharsetx", "charset=", "charset =", "charset= ", "charset='", "charset=\"", "charset='x", "charset=;", "charsetcharset=x", "charset charset = y", "CHARSET", "charset\t\n=\r x", ";;;charset;;;=;;;", "charset=\x00", ""}
	for _, c := range contents {
		for _, tpl := range []string{"<html><meta content=\"%s\">", "<html><meta http-equiv=\"Content-Type\" content=\"%s\">", "<html><meta name=\"description\" content='%s'>", "<html><meta content=%s http-equiv=content-type>", "<html><meta charset=\"%s\" content=\"%s\">"} {
			x := bytes.ReplaceAll([]byte(tpl), []byte("%s"), []byte(c))
			out = append(out, x, x[:len(x)-1], append(append([]byte{0xEF, 0xBB, 0xBF}, x...), "<p>"...))
		}
	}
	prologs := []string{"<?xml", "<?xml ", "<?xml version", "<?xml version=", "<?xml version=\"1.0\" encoding", "<?xml version=\"1.0\" encoding=", "<?xml version=\"1.0\" encoding=\"", "<?xml version=\"1.0\" encoding='x", "<?xml version=\"1.0\" encoding=\"x\"", "<?xml version=\"1.0\" encoding=\"x\"?", "<?xml encoding=encoding=encoding=?>", "<?xml ?>", "<?xml?>", "<?xml version='2.0' encoding='x'?>", "<?xml\tversion=\"1.0\"?>", "<?xml version=\"1.0\" encoding=?>", "<?xml version=\"1.0\" encoding= ?>", "<?xml version=\"1.0\" encoding=\t\n?>", "<?xml encoding=?>", "<?xml version=\"1.0\" encoding = ?>", "<?xml version=\"1.0\" encoding=\"?>", "<?xml version=\"1.0\" encoding='?>", "<?xml version=?>", "<?xml version=\"1.0\" standalone=?>", "<?xml version=\"1.0\" encoding=\"\"?>", "<?xml version=\"1.0\" encoding=''?><a/>"}
	for _, pr := range prologs {
		out = append(out, []byte(pr), []byte(" \n"+pr), []byte(pr+"<a>"))
	}
	tags := []string{"<html", "<html ", "<html>", "<HTML><", "<html><meta", "<html><meta ", "<html><meta charset", "<html><meta charset=", "<html><!--", "<html><!-- --", "<html><script>", "<html><script><meta charset=x>", "<html><title>", "<html><textarea><meta charset=\"x\">", "<html><meta charset=x", "<html><META CHARSET=X/>", "<html></meta charset=x>", "<html><meta\x00charset=x>", "<html><meta charset=&#x75;tf-8>"}
	for _, t := range tags {
		out = append(out, []byte(t))
	}
	return out
}

// SmallBoxes: ftyp / RIFF / misc headers at every length around their guards.
func SmallBoxes() [][]byte {
	var out [][]byte
	full := []string{
		"\x00\x00\x00\x18ftypheic\x00\x00\x00\x00heic", "\x00\x00\x00\x14ftypqt  \x00\x00", "\x00\x00\x00\x08wide\x00\x00\x00\x00mdat", "\x00\x00\x00\x0cjP  \x0d\x0a\x87\x0a\x00\x00\x00\x14ftypjp2 ",
		"RIFF\x00\x00\x00\x00WAVEfmt ", "RIFF\x00\x00\x00\x00AVI LIST\x00", "FORM\x00\x00\x00\x00AIFF\x00", "AT&TFORM\x00\x00\x00\x00DJVM", "\xCA\xFE\xBA\xBE\x00\x00\x00\x34", "\x7fELF\x02\x01\x01\x00\x00\x00\x00\x00\x00\x00\x00\x00\x03\x00",
		"OggS\x00\x02\x00\x00\x00\x00\x00\x00\x00\x00\x00\x00\x00\x00\x00\x00\x00\x00\x00\x00\x00\x00\x00\x00\x01vorbis\x00\x00", "\x30\x82\x06\x09\x2A\x86\x48\x86\xF7\x0D\x01\x07\x02\x00\x00\x00\x00\x00\x00\x00\x00", "ttcf\x00\x01\x00\x00", "ISc(\x00\x00\x00\x01",
		"TZif2\x00\x00\x00\x00\x00\x00\x00\x00\x00\x00\x00\x00\x00\x00\x00\x00\x00\x00\x00\x00\x00\x00\x00\x00\x00\x00\x00\x00\x00\x00\x00\x00\x00\x00\x00\x00\x01\x00\x00\x00\x00", "01234     22    4500\x1e", "AC1015\x00", "\x28\xb5\x2f\xfd", "\x00\x00\x01\xba",
		"\x03\x01\x01\x01" + string(make([]byte, 70)), "\x00\x00\x27\x0a" + string(make([]byte, 120)),
	}
	for _, f := range full {
		for n := 0; n <= len(f); n++ {
			out = append(out, []byte(f[:n]))
		}
	}
	return out
}

func minInt(a, b int) int {
	if a < b {
		return a
	}
	return b
}
