module verifharness

go 1.23.0

toolchain go1.23.5

require (
	github.com/anishathalye/porcupine v1.3.0
	github.com/gabriel-vasile/mimetype v0.0.0
)

require golang.org/x/net v0.39.0 // indirect

replace github.com/gabriel-vasile/mimetype => /repo
