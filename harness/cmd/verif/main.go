// Command verif is the single binary of the verification harness:
//
//	verif supervise -prop Cxx -tier quick|thorough -exe <bin> [-raceexe <bin>] -root /verif
//	verif child     -prop Cxx -tier … -seed … -batch <json> -out <file> [-trace <file>]
//	verif replay    -prop Cxx -file <replay.json>
package main

import (
	"encoding/json"
	"flag"
	"fmt"
	"os"
	"os/exec"
	"runtime/debug"
	"strconv"
	"time"

	"verifharness/internal/fw"
	_ "verifharness/internal/props"
)

const stallS = 120

func seedFromEnv() int64 {
	if s := os.Getenv("VERIF_SEED"); s != "" {
		if v, err := strconv.ParseInt(s, 10, 64); err == nil {
			return v
		}
	}
	return 1
}

func main() {
	if len(os.Args) < 2 {
		fmt.Println("usage: verif supervise|child|replay …")
		os.Exit(2)
	}
	switch os.Args[1] {
	case "supervise":
		fs := flag.NewFlagSet("supervise", flag.ExitOnError)
		prop := fs.String("prop", "", "")
		tier := fs.String("tier", "quick", "")
		exe := fs.String("exe", "", "")
		raceexe := fs.String("raceexe", "", "")
		root := fs.String("root", "/verif", "")
		fs.Parse(os.Args[2:])
		os.Exit(fw.Supervise(fw.SuperOpts{Prop: *prop, Tier: *tier, Seed: seedFromEnv(), Exe: *exe, RaceExe: *raceexe, Root: *root}))
	case "child":
		fs := flag.NewFlagSet("child", flag.ExitOnError)
		prop := fs.String("prop", "", "")
		tier := fs.String("tier", "quick", "")
		seed := fs.Int64("seed", 1, "")
		batch := fs.String("batch", "", "")
		out := fs.String("out", "", "")
		trace := fs.String("trace", "", "")
		fs.Parse(os.Args[2:])
		p := fw.Get(*prop)
		if p == nil {
			fmt.Println("unknown property", *prop)
			os.Exit(3)
		}
		var b fw.Batch
		if err := json.Unmarshal([]byte(*batch), &b); err != nil {
			fmt.Println("bad batch:", err)
			os.Exit(3)
		}
		c := fw.NewCtx(*prop, *tier, *seed, b, *trace)
		// Child-side stall watchdog: no progress (no case finished) for stallS
		// seconds ends the child with exit code 4; the supervisor then re-runs the
		// batch in trace mode, where a non-returning call is pinned. Not used in
		// trace mode itself (the supervisor watches the trace file there).
		if *trace == "" && !b.Slow {
			go func() {
				last, since := c.Progress(), time.Now()
				for {
					time.Sleep(3 * time.Second)
					if p := c.Progress(); p != last {
						last, since = p, time.Now()
					} else if time.Since(since) > stallS*time.Second {
						fmt.Printf("STALL: no case finished for %d s\n", stallS)
						os.Exit(4)
					}
				}
			}()
		}
		func() {
			defer func() {
				if e := recover(); e != nil {
					// A panic outside Ctx.Guard is a bug of the harness itself.
					fmt.Printf("HARNESS-PANIC: %v\n%s\n", e, debug.Stack())
					os.Exit(3)
				}
			}()
			p.Run(c, b)
		}()
		if err := c.WriteResult(*out, true); err != nil {
			fmt.Println("cannot write result:", err)
			os.Exit(3)
		}
	case "replay":
		// The replay runs in a child process so that a crash or a hang of the
		// replayed case is reported as a violation instead of killing the reporter.
		fs := flag.NewFlagSet("replay", flag.ExitOnError)
		prop := fs.String("prop", "", "")
		file := fs.String("file", "", "")
		fs.Parse(os.Args[2:])
		exe, _ := os.Executable()
		cmd := exec.Command(exe, "replay-child", "-prop", *prop, "-file", *file)
		cmd.Stdout = os.Stdout
		cmd.Stderr = os.Stderr
		if err := cmd.Start(); err != nil {
			fmt.Println(err)
			os.Exit(2)
		}
		done := make(chan error, 1)
		go func() { done <- cmd.Wait() }()
		select {
		case <-done:
			code := cmd.ProcessState.ExitCode()
			switch code {
			case 0, 1, 2:
				os.Exit(code)
			default:
				fmt.Printf("replayed case killed the process (exit %d)\nVIOLATION property=%s replay=%s\n", code, *prop, *file)
				os.Exit(1)
			}
		case <-time.After(240 * time.Second):
			cmd.Process.Kill()
			fmt.Printf("replayed case did not return within 240 s\nVIOLATION property=%s replay=%s\n", *prop, *file)
			os.Exit(1)
		}
	case "replay-child":
		fs := flag.NewFlagSet("replay-child", flag.ExitOnError)
		prop := fs.String("prop", "", "")
		file := fs.String("file", "", "")
		fs.Parse(os.Args[2:])
		p := fw.Get(*prop)
		if p == nil || p.Replay == nil {
			fmt.Println("no replay for property", *prop)
			os.Exit(2)
		}
		raw, err := os.ReadFile(*file)
		if err != nil {
			fmt.Println(err)
			os.Exit(2)
		}
		var v fw.Violation
		if err := json.Unmarshal(raw, &v); err != nil {
			fmt.Println(err)
			os.Exit(2)
		}
		c := fw.NewCtx(*prop, "replay", seedFromEnv(), fw.Batch{Name: "replay"}, "")
		c.Replay = true
		if v.Kind == "data-race" {
			fmt.Println("a data-race report is replayed by re-running the check (schedules are not deterministic); the recorded report:")
			fmt.Println(v.Msg)
			os.Exit(0)
		}
		p.Replay(c, v.Payload)
		if c.NViol() > 0 {
			fmt.Printf("VIOLATION property=%s replay=%s\n", *prop, *file)
			os.Exit(1)
		}
		fmt.Println("replay: no violation reproduced")
	default:
		fmt.Println("unknown command", os.Args[1])
		os.Exit(2)
	}
}
