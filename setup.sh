#!/bin/bash
# setup_cmd: offline. Warms the Go build cache (standard library with and without -race,
# the harness and the library under test with the verif tag) so that each ./check only
# recompiles what changed.
set -u
cd "$(dirname "$0")/harness" || exit 1
export GOFLAGS=-mod=mod GOPROXY=off GOSUMDB=off GOTOOLCHAIN=local
mkdir -p ../build ../evidence ../out
go build -tags verif -o ../build/verif-setup ./cmd/verif || exit 1
go build -race -tags verif -o ../build/verif-setup-race ./cmd/verif || exit 1
go vet -tags verif ./... || exit 1
rm -f ../build/verif-setup ../build/verif-setup-race
echo "setup ok"
